package gen

import (
	"fmt"
	"math/rand/v2"
	"sort"
	"strings"
)

// Runnable program generator (the "runnable mask" of W2): bash programs that
// only use builtins and a handful of allowlisted tools (cat sort head tr wc),
// terminate by construction (loops run over literal lists or counters),
// are deterministic (no $RANDOM, $$, time, unsynchronised background output)
// and only touch files in the current (scratch) directory.
//
// Every generated program carries the set of feature tags used to build it, so
// known findings can carve out regions and evidence can report coverage.

type RunOpts struct {
	Depth int
	// Only, if non-nil, restricts statement kinds to those named.
	Only map[string]bool
	// Avoid lists feature tags the generator must not use (carve-outs).
	Avoid map[string]bool
	// Stmts is the number of top-level statements (0: 2..7).
	Stmts int
	// Simplifiable biases words towards what syntax.Simplify rewrites (C04).
	Simplifiable bool
	// NoExitTrap leaves EXIT traps out (C30's statement-by-statement mode).
	NoExitTrap bool
}

type rg struct {
	r      *rand.Rand
	o      RunOpts
	b      strings.Builder
	feat   map[string]bool
	ind    int
	nfile  int
	nfunc  int
	funcs  []string
	loopD  int // current loop nesting (for break/continue levels)
	inFunc int
	hd     int
	ctr    int
	arrs   map[string]bool
	busy   map[string]bool // files an enclosing group is currently redirected to
}

var (
	runVars  = []string{"a", "b", "c", "x", "y", "z", "v1", "v2"}
	runInts  = []string{"n", "m", "k"}
	runArrs  = []string{"arr", "lst"}
	runWords = []string{"foo", "bar", "baz", "a", "b", "x1", "hello", "w-2", "A", "Bc", "0", "1", "42", "007", "x_y", "q.r", "", "two words", "a  b", " lead", "trail ", "*", "a*b", "?", "[ab]", "$HOME", "a\\b", "it's", "say \"hi\"", "tab\there", "-n", "-e", "--", "=", "!", "(", "é", "~"}
	runPlain = []string{"foo", "bar", "baz", "a", "b", "x1", "hello", "A", "Bc", "0", "1", "42", "x_y"}
)

// RunProgram generates one runnable program and its feature tags.
func RunProgram(r *rand.Rand, o RunOpts) (string, []string) {
	if o.Depth == 0 {
		o.Depth = 2 + r.IntN(2)
	}
	g := &rg{r: r, o: o, feat: map[string]bool{}, arrs: map[string]bool{}}
	// a prelude that gives the variables defined values
	for _, v := range runVars[:3+r.IntN(4)] {
		g.line(v + "=" + g.quoted(g.pickWord()))
	}
	for _, v := range runInts {
		g.line(fmt.Sprintf("%s=%d", v, r.IntN(7)))
	}
	if g.p(2) {
		g.arrayAssign("arr")
	}
	n := o.Stmts
	if n == 0 {
		n = 2 + r.IntN(6)
	}
	for i := 0; i < n; i++ {
		g.stmt(o.Depth)
	}
	if g.p(4) {
		g.line("echo \"end $?\"")
	}
	if g.p(5) {
		g.line(fmt.Sprintf("exit %d", []int{0, 1, 2, 3, 7, 42, 127, 255}[r.IntN(8)]))
		g.f("exit")
	}
	var tags []string
	for t := range g.feat {
		tags = append(tags, t)
	}
	sort.Strings(tags)
	return g.b.String(), tags
}

func (g *rg) p(n int) bool { return g.r.IntN(n) == 0 }
func (g *rg) f(t string)   { g.feat[t] = true }
func (g *rg) ok(t string) bool {
	if g.o.Avoid[t] {
		return false
	}
	if g.o.Only != nil && !g.o.Only[t] {
		return false
	}
	return true
}
func (g *rg) line(s string) {
	g.b.WriteString(strings.Repeat("  ", g.ind))
	g.b.WriteString(s)
	g.b.WriteString("\n")
}
func (g *rg) pick(xs []string) string { return xs[g.r.IntN(len(xs))] }
func (g *rg) pickWord() string {
	if g.p(3) {
		return g.pick(runWords)
	}
	return g.pick(runPlain)
}
func (g *rg) v() string  { return g.pick(runVars) }
func (g *rg) iv() string { return g.pick(runInts) }

// quoted renders s as a single shell word with a randomly chosen quoting style.
func (g *rg) quoted(s string) string {
	plain := s != "" && strings.IndexFunc(s, func(r rune) bool {
		return !(r >= 'a' && r <= 'z' || r >= 'A' && r <= 'Z' || r >= '0' && r <= '9' || r == '_' || r == '.' || r == '-' && false)
	}) < 0
	switch k := g.r.IntN(4); {
	case plain && k < 2:
		return s
	case k == 3 && !strings.ContainsAny(s, "\t") && !strings.ContainsRune(s, 'é'):
		// double quotes with escapes
		var sb strings.Builder
		sb.WriteByte('"')
		for _, c := range s {
			if strings.ContainsRune("$`\"\\", c) {
				sb.WriteByte('\\')
			}
			sb.WriteRune(c)
		}
		sb.WriteByte('"')
		return sb.String()
	default:
		return "'" + strings.ReplaceAll(s, "'", `'\''`) + "'"
	}
}

// word renders a word that expands deterministically. quotedCtx: inside double quotes already.
func (g *rg) word(d int) string {
	switch k := g.r.IntN(16); {
	case k < 3:
		return g.quoted(g.pickWord())
	case k < 6:
		return `"$` + g.v() + `"`
	case k == 6:
		return `"${` + g.v() + `}` + g.pick(runPlain) + `"`
	case k == 7:
		g.f("param-default")
		return `"${` + g.pick([]string{"unset1", g.v()}) + g.pick([]string{":-", "-", ":+", "+"}) + g.pick(runPlain) + `}"`
	case k == 8:
		g.f("arith-exp")
		return "$((" + g.arith(2) + "))"
	case k == 9 && d > 0:
		g.f("cmdsubst")
		if g.p(3) && g.ok("backquote") {
			g.f("backquote")
			return "\"`echo " + g.simpleWord() + "`\""
		}
		return `"$(` + g.inlineCmd(d-1) + `)"`
	case k == 10:
		g.f("param-len")
		return `"${#` + g.v() + `}"`
	case k == 11 && g.ok("array"):
		g.f("array")
		g.arrs["arr"] = true
		return g.pick([]string{`"${arr[0]}"`, `"${arr[1]}"`, `"${arr[@]}"`, `"${#arr[@]}"`, `"${arr[*]}"`, `"${arr[` + g.iv() + `]}"`, `"${!arr[@]}"`})
	case k == 12:
		g.f("param-trim")
		return `"${` + g.v() + g.pick([]string{"#", "##", "%", "%%"}) + g.pick([]string{"a", "?", "*o", "b*", "[a-f]"}) + `}"`
	case k == 13:
		return `"$` + g.iv() + `"`
	case k == 14:
		// unquoted variable holding a plain word: splitting/globbing on the unchanged value set is deterministic
		return "$" + g.iv()
	default:
		return g.simpleWord()
	}
}

func (g *rg) simpleWord() string { return g.pick(runPlain) }

func (g *rg) words(d, lo, hi int) string {
	n := lo + g.r.IntN(hi-lo+1)
	var ws []string
	for i := 0; i < n; i++ {
		ws = append(ws, g.word(d))
	}
	return strings.Join(ws, " ")
}

func (g *rg) arith(d int) string {
	if d == 0 || g.p(3) {
		if g.p(2) {
			return g.iv()
		}
		return fmt.Sprint(g.r.IntN(10))
	}
	switch g.r.IntN(8) {
	case 0:
		return "(" + g.arith(d-1) + ")"
	case 1:
		return g.arith(d-1) + " * " + g.arith(d-1)
	case 2:
		return g.arith(d-1) + " - " + g.arith(d-1)
	case 3:
		return g.arith(d-1) + " % 5"
	case 4:
		return g.arith(d-1) + g.pick([]string{" < ", " <= ", " == ", " != ", " > ", " && ", " || "}) + g.arith(d-1)
	case 5:
		return g.arith(d-1) + " ? " + g.arith(d-1) + " : " + g.arith(d-1)
	case 6:
		if g.o.Simplifiable {
			return "$" + g.iv() + " + (" + fmt.Sprint(g.r.IntN(5)) + ")"
		}
		return "$" + g.iv() + " + " + fmt.Sprint(g.r.IntN(5))
	default:
		return g.arith(d-1) + " + " + g.arith(d-1)
	}
}

// inlineCmd is a one-line command usable inside $( ).
func (g *rg) inlineCmd(d int) string {
	switch g.r.IntN(6) {
	case 0:
		return "echo " + g.words(d, 1, 2)
	case 1:
		return "printf '%s-' " + g.words(d, 1, 3)
	case 2:
		if len(g.funcs) > 0 && g.inFunc == 0 {
			return g.pick(g.funcs) + " " + g.words(d, 0, 2)
		}
		return "echo " + g.simpleWord()
	case 3:
		g.f("pipeline")
		return "echo " + g.simpleWord() + " | tr a-z A-Z"
	case 4:
		return "echo " + g.word(d) + "; echo " + g.simpleWord()
	default:
		return "printf '%s\\n' " + g.words(d, 1, 3) + " | sort"
	}
}

func (g *rg) cond(d int) string {
	switch k := g.r.IntN(12); {
	case k == 0:
		return g.pick([]string{"true", "false", ":"})
	case k < 3:
		g.f("test")
		return "[ " + g.word(d) + " " + g.pick([]string{"=", "!="}) + " " + g.word(d) + " ]"
	case k == 3:
		g.f("test")
		return "[ " + g.pick([]string{"-n", "-z"}) + " " + g.word(d) + " ]"
	case k == 4:
		g.f("test")
		return "[ \"$" + g.iv() + "\" " + g.pick([]string{"-lt", "-le", "-eq", "-ne", "-gt", "-ge"}) + " " + fmt.Sprint(g.r.IntN(6)) + " ]"
	case k == 5 && g.ok("dbracket"):
		g.f("dbracket")
		return "[[ " + g.dbr(d) + " ]]"
	case k == 6 && g.ok("dbracket"):
		g.f("dbracket")
		if g.o.Simplifiable && g.p(2) {
			return "[[ " + g.pick([]string{"! -n ", "! -z "}) + "\"$" + g.v() + "\" ]]"
		}
		return "[[ " + g.dbr(d) + g.pick([]string{" && ", " || "}) + g.dbr(d) + " ]]"
	case k == 7 && g.ok("arith-cmd"):
		g.f("arith-cmd")
		return "(( " + g.arith(2) + " ))"
	case k == 8:
		g.f("negation")
		return "! " + g.cond(0)
	case k == 9 && g.nfile > 0:
		g.f("test-file")
		return "[ " + g.pick([]string{"-f", "-e", "-s", "-d", "-r"}) + " " + g.someFile() + " ]"
	case k == 10 && len(g.funcs) > 0 && g.inFunc == 0:
		return g.pick(g.funcs) + " " + g.simpleWord() + " >/dev/null"
	default:
		g.f("test")
		return "test " + g.word(d) + " = " + g.word(d)
	}
}

func (g *rg) dbr(d int) string {
	switch g.r.IntN(6) {
	case 0:
		return "\"$" + g.v() + "\" == " + g.pick([]string{"f*", "*a*", "?", "[a-c]*", "\"*\"", "bar", "''"})
	case 1:
		return "$" + g.v() + " != " + g.quoted(g.pickWord())
	case 2:
		return g.pick([]string{"-n", "-z"}) + " $" + g.v()
	case 3:
		return "$" + g.iv() + " -lt " + fmt.Sprint(g.r.IntN(6))
	case 4:
		g.f("dbracket-regex")
		return "$" + g.v() + " =~ " + g.pick([]string{"^f", "a+", "^[a-z]+$", "o{2}", "b.r"})
	default:
		return "\"$" + g.v() + "\" < \"$" + g.v() + "\""
	}
}

func (g *rg) block(d int) {
	g.ind++
	n := 1 + g.r.IntN(3)
	for i := 0; i < n; i++ {
		g.stmt(d)
	}
	g.ind--
}

func (g *rg) arrayAssign(name string) {
	g.f("array")
	g.arrs[name] = true
	var ws []string
	for i, n := 0, 1+g.r.IntN(4); i < n; i++ {
		ws = append(ws, g.quoted(g.pickWord()))
	}
	g.line(name + "=(" + strings.Join(ws, " ") + ")")
}

func (g *rg) newFile() string {
	g.nfile++
	return fmt.Sprintf("f%d", g.nfile)
}
func (g *rg) someFile() string {
	if g.nfile == 0 {
		return g.newFile()
	}
	f := fmt.Sprintf("f%d", 1+g.r.IntN(g.nfile))
	if g.busy[f] {
		// never read or rewrite a file an enclosing group is writing to
		return g.newFile()
	}
	return f
}

func (g *rg) stmt(d int) {
	for try := 0; try < 20; try++ {
		if g.tryStmt(d) {
			return
		}
	}
	g.line("echo " + g.words(d, 1, 3))
}

func (g *rg) tryStmt(d int) bool {
	k := g.r.IntN(45)
	if g.o.Simplifiable && g.p(4) {
		k = 41 + g.r.IntN(3) // what Simplify rewrites
	}
	switch {
	case k < 5:
		g.line("echo " + g.words(d, 1, 4))
	case k < 7:
		g.f("printf")
		g.line("printf " + g.pick([]string{`'%s\n'`, `'[%s]'`, `'%s=%s\n'`, `'%s'`, `"%s\n"`}) + " " + g.words(d, 1, 3))
		if g.p(2) {
			g.line("echo")
		}
	case k < 10:
		g.line(g.v() + "=" + g.word(d))
	case k == 10:
		g.line(g.v() + "+=" + g.quoted(g.pickWord())) // a literal: appending a variable to itself in nested loops grows exponentially
		g.f("append")
	case k == 11:
		v := g.iv()
		switch g.r.IntN(4) {
		case 0:
			g.line(v + "=$((" + g.arith(2) + "))")
		case 1:
			g.f("arith-cmd")
			g.line("(( " + v + g.pick([]string{"++", "--", " += 2", " *= 2", " = " + g.arith(1)}) + " ))" + g.pick([]string{"", " || true", " || echo zero"}))
		case 2:
			g.f("let")
			if g.ok("let-quoted-expr") && g.p(2) {
				g.f("let-quoted-expr")
				g.line("let \"" + v + "=" + g.arith(1) + "\"" + g.pick([]string{"", " || true"}))
			} else {
				g.line("let " + v + "=" + strings.ReplaceAll(g.arith(1), " ", "") + g.pick([]string{"", " || true"}))
			}
		default:
			g.line(v + "=" + fmt.Sprint(g.r.IntN(9)))
		}
	case k == 12 && g.ok("array"):
		switch g.r.IntN(5) {
		case 0:
			g.arrayAssign(g.pick(runArrs))
		case 1:
			g.f("array")
			g.arrs["arr"] = true
			g.line("arr[" + fmt.Sprint(g.r.IntN(5)) + "]=" + g.word(d))
		case 2:
			g.f("array-append")
			g.arrs["arr"] = true
			g.line("arr+=(" + g.words(d, 1, 2) + ")")
		case 3:
			g.f("array")
			g.line("for e in \"${arr[@]}\"; do echo \"e=$e\"; done")
		default:
			g.f("array-unset")
			g.line("unset 'arr[" + fmt.Sprint(g.r.IntN(3)) + "]'")
			g.line("echo \"${#arr[@]}:${arr[*]}\"")
		}
	case k < 16 && d > 0:
		g.f("if")
		g.line("if " + g.cond(d) + "; then")
		g.block(d - 1)
		if g.p(3) {
			g.f("elif")
			g.line("elif " + g.cond(d) + "; then")
			g.block(d - 1)
		}
		if g.p(2) {
			g.line("else")
			g.block(d - 1)
		}
		g.line("fi")
	case k == 16 && d > 0:
		g.f("while")
		g.ctr++
		c := fmt.Sprintf("i%d", g.ctr)
		g.line(c + "=0")
		kw := "while"
		cnd := fmt.Sprintf("[ $%s -lt %d ]", c, 1+g.r.IntN(4))
		if g.p(3) {
			kw = "until"
			g.f("until")
			cnd = fmt.Sprintf("[ $%s -ge %d ]", c, 1+g.r.IntN(4))
		}
		g.line(kw + " " + cnd + "; do")
		g.ind++
		g.line(c + "=$((" + c + "+1))") // increment first so that `continue` cannot loop forever
		g.ind--
		g.loopD++
		g.block(d - 1)
		g.loopD--
		g.line("done")
	case k == 17 && d > 0:
		g.f("for")
		g.line("for " + g.v() + " in " + g.words(d, 0, 4) + "; do")
		g.loopD++
		g.block(d - 1)
		g.loopD--
		g.line("done")
	case k == 18 && d > 0 && g.ok("cstyle-for"):
		g.f("cstyle-for")
		g.ctr++
		c := fmt.Sprintf("j%d", g.ctr)
		g.line(fmt.Sprintf("for ((%s = 0; %s < %d; %s++)); do", c, c, 1+g.r.IntN(4), c))
		g.loopD++
		g.block(d - 1)
		g.loopD--
		g.line("done")
	case k == 19 && g.loopD > 0:
		g.f("break-continue")
		lvl := ""
		if g.loopD > 1 && g.p(2) {
			lvl = fmt.Sprintf(" %d", 1+g.r.IntN(g.loopD))
			g.f("break-level")
		}
		g.line("if " + g.cond(0) + "; then " + g.pick([]string{"break", "continue"}) + lvl + "; fi")
	case k < 22 && d > 0:
		g.f("case")
		subj := g.word(d)
		n := 1 + g.r.IntN(3)
		pats := []string{"foo", "ba*", "?", "[a-c]*", "a|b", "\"$" + g.v() + "\"", "$" + g.v(), "''", "*o*", "[!a]*", "4[0-9]"}
		chain := g.p(4) && g.ok("case-fallthrough")
		if chain {
			// several items that match the same subject, chained by ;& and ;;&
			lit := g.simpleWord()
			subj = lit
			n = 3 + g.r.IntN(3)
			pats = []string{lit, "*", lit + "|zz", "nomatch", "?*", "zz", "[!z]*"}
		}
		g.line("case " + subj + " in")
		g.ind++
		for i := 0; i < n; i++ {
			g.line(g.pick(pats) + ")")
			if chain {
				g.ind++
				g.line("echo item" + fmt.Sprint(i))
				g.ind--
			} else {
				g.block(d - 1)
			}
			op := ";;"
			if (chain && !g.p(3) || g.p(6)) && g.ok("case-fallthrough") {
				op = g.pick([]string{";&", ";;&"})
				g.f("case-fallthrough")
			}
			g.line(op)
		}
		if g.p(2) {
			g.line("*) echo default ;;")
		}
		g.ind--
		g.line("esac")
	case k == 22 && d > 0 && g.inFunc == 0 && g.loopD == 0 && g.ind == 0:
		g.f("function")
		g.nfunc++
		name := fmt.Sprintf("fn%d", g.nfunc)
		if g.p(4) && g.ok("function-keyword") {
			g.line("function " + name + " {")
		} else {
			g.line(name + "() {")
		}
		g.inFunc++
		g.ind++
		if g.p(2) {
			g.f("local")
			g.line("local " + g.v() + "=" + g.word(0) + " " + g.pick([]string{"", "lv", "lv=1"}))
		}
		g.line("echo \"" + name + ": $# $1\"")
		g.ind--
		savedLoop := g.loopD
		g.loopD = 0
		g.block(d - 1)
		g.loopD = savedLoop
		g.ind++
		if g.p(2) {
			g.f("return")
			g.line("return " + fmt.Sprint(g.r.IntN(4)))
		}
		g.ind--
		g.inFunc--
		g.line("}")
		g.funcs = append(g.funcs, name)
		g.line(name + " " + g.words(d, 0, 3))
		if g.p(2) {
			g.line("echo \"rc=$?\"")
		}
	case k == 23 && len(g.funcs) > 0 && g.inFunc == 0:
		g.line(g.pick(g.funcs) + " " + g.words(d, 0, 3) + g.pick([]string{"", " || echo failed", " && echo ok"}))
	case k == 24 && d > 0:
		g.f("subshell")
		g.line("(")
		savedLoop := g.loopD
		g.loopD = 0
		g.block(d - 1)
		if g.p(3) {
			g.ind++
			g.line(fmt.Sprintf("exit %d", g.r.IntN(4)))
			g.ind--
		}
		g.loopD = savedLoop
		g.line(")" + g.pick([]string{"", " || echo \"sub=$?\""}))
	case k == 25 && d > 0:
		g.f("redirect-file")
		f := g.newFile()
		if g.busy == nil {
			g.busy = map[string]bool{}
		}
		g.busy[f] = true
		g.line("{")
		g.block(d - 1)
		g.line("} > " + f)
		delete(g.busy, f)
		g.line("cat " + f)
	case k == 26:
		g.f("redirect-file")
		f := g.someFile()
		g.line("echo " + g.words(d, 1, 2) + " " + g.pick([]string{">", ">>"}) + " " + f)
		if g.p(2) {
			g.line("cat < " + f)
		} else {
			g.line("while read -r ln; do echo \"<$ln>\"; done < " + f)
			g.f("read")
		}
	case k == 27:
		g.f("pipeline")
		switch g.r.IntN(6) {
		case 0:
			g.line("echo " + g.words(d, 1, 3) + " | tr a-z A-Z")
		case 1:
			g.line("printf '%s\\n' " + g.words(d, 2, 4) + " | sort | head -n 2")
		case 2:
			g.f("pipeline-while-read")
			g.line("printf '%s\\n' " + g.words(d, 1, 3) + " | while read -r ln; do echo \"ln=$ln\"; done")
		case 3:
			g.line("echo " + g.simpleWord() + " | cat | cat")
		case 4:
			g.line(g.pick([]string{"true", "false"}) + " | " + g.pick([]string{"true", "false"}) + "; echo \"p=$?\"")
		default:
			g.line("{ echo " + g.simpleWord() + "; echo " + g.simpleWord() + "; } | wc -l | tr -d ' '")
		}
	case k == 28:
		g.f("heredoc")
		g.hd++
		delim := fmt.Sprintf("EOF%d", g.hd)
		switch g.r.IntN(4) {
		case 0:
			g.line("cat <<" + delim)
			g.b.WriteString("text $" + g.v() + " ${" + g.v() + "} $((" + g.iv() + "+1)) \\$x `echo bq`\nline2 \"q\" 'q'\n" + delim + "\n")
		case 1:
			g.f("heredoc-quoted")
			g.line("cat <<'" + delim + "'")
			g.b.WriteString("raw $" + g.v() + " $(echo no) \\n\n" + delim + "\n")
		case 2:
			g.f("heredoc-dash")
			g.line("cat <<-" + delim)
			g.b.WriteString("\t\tindented $" + g.v() + "\n\t" + delim + "\n")
		default:
			g.line("while read -r ln; do echo \"h:$ln\"; done <<" + delim)
			g.b.WriteString("one\ntwo $" + g.v() + "\n" + delim + "\n")
			g.f("read")
		}
	case k == 29 && g.ok("herestring"):
		g.f("herestring")
		switch g.r.IntN(3) {
		case 0:
			g.line("cat <<< " + g.word(d))
		case 1:
			g.f("read")
			g.line("read -r r1 r2 <<< " + g.pick([]string{"\"one two three\"", "\"$" + g.v() + "\"", "'  sp  aced  '", "single"}))
			g.line("echo \"r1=$r1 r2=$r2\"")
		default:
			g.line("tr a-z A-Z <<< " + g.word(d))
		}
	case k == 30:
		g.f("and-or")
		g.line(g.cond(d) + " " + g.pick([]string{"&&", "||"}) + " echo " + g.simpleWord() + g.pick([]string{"", " || echo alt", " && echo both"}))
	case k == 31 && g.inFunc == 0 && g.loopD == 0 && g.ind == 0 && g.ok("set-e"):
		g.f("set-e")
		g.line("set -e")
		if g.p(2) {
			g.line(g.pick([]string{"false || echo caught", "if false; then echo no; fi", "! true", "false && echo skipped", "true"}))
		}
		if g.p(3) {
			g.line("echo before")
			g.line(g.pick([]string{"false", "[ a = b ]", "(exit 3)", "fn_missing 2>/dev/null"}))
			g.line("echo not-reached")
		}
		if g.p(2) || !g.ok("set-e-persistent") {
			g.line("set +e")
		} else {
			g.f("set-e-persistent")
		}
	case k == 32 && g.inFunc == 0 && g.ok("pipefail"):
		g.f("pipefail")
		g.line("set -o pipefail")
		g.line(g.pick([]string{"false | true", "true | false | true", "(exit 2) | (exit 3)", "true | true"}) + "; echo \"pf=$?\"")
		if g.p(2) {
			g.line("set +o pipefail")
		}
	case k == 33 && g.inFunc == 0 && g.loopD == 0 && g.ind == 0 && g.ok("trap"):
		if g.p(2) && !g.o.NoExitTrap {
			g.f("trap-exit")
			g.line("trap 'echo bye $?' EXIT")
		} else if g.ok("trap-err") {
			g.f("trap-err")
			g.line("trap 'echo err' ERR")
			g.line(g.pick([]string{"false", "true", "[ 1 = 2 ]", "false || true"}))
			if g.p(2) || !g.ok("trap-err-persistent") {
				g.line("trap - ERR")
			} else {
				g.f("trap-err-persistent")
			}
		}
	case k == 34:
		g.f("positional")
		g.line("set -- " + g.words(d, 0, 4))
		g.line("echo \"$#:$1:$*\"")
		if g.p(2) {
			g.f("shift")
			g.line("shift" + g.pick([]string{"", " 1"}) + " 2>/dev/null || echo noshift")
			g.line("for p in \"$@\"; do echo \"p=$p\"; done")
		}
	case k == 35 && g.ok("eval"):
		g.f("eval")
		g.line("eval " + g.pick([]string{"\"echo $" + g.v() + "\"", "'echo \"$" + g.v() + "\"'", "\"" + g.v() + "=" + g.simpleWord() + "\"", "'" + g.iv() + "=$((" + g.iv() + "+1))'"}))
	case k == 36:
		g.f("export-unset")
		v := g.v()
		switch g.r.IntN(4) {
		case 0:
			g.line("export " + v + "=" + g.word(d))
		case 1:
			g.line("unset " + v)
			g.line("echo \"[${" + v + "-unset}]\"")
		case 2:
			g.f("readonly")
			g.ctr++
			g.line(fmt.Sprintf("readonly ro%d=%s", g.ctr, g.simpleWord()))
			g.line(fmt.Sprintf("echo \"$ro%d\"", g.ctr))
		default:
			g.f("declare")
			g.ctr++
			g.line(fmt.Sprintf("declare %sd%d=%s", g.pick([]string{"", "-x ", "-r "}), g.ctr, g.pick([]string{"5", "abc", "1+1"})))
			g.line(fmt.Sprintf("echo \"$d%d\"", g.ctr))
		}
	case k == 37 && d > 0:
		g.f("cmdsubst")
		g.line(g.v() + "=$(" + g.inlineCmd(d-1) + ")")
		g.line("echo \"$?\"")
	case k == 38 && g.ok("brace-group"):
		g.line("{ echo " + g.simpleWord() + "; " + g.pick([]string{"true", "false"}) + "; } " + g.pick([]string{"&& echo y", "|| echo n", "2>/dev/null"}))
	case k == 39 && g.ok("background"):
		g.f("background")
		f := g.newFile()
		g.line("{ echo bg " + g.simpleWord() + " > " + f + "; } &")
		g.line("wait")
		g.line("cat " + f)
	case k == 40 && g.ok("param-ops"):
		g.f("param-ops")
		v := g.v()
		g.line("echo \"" + g.pick([]string{"${" + v + "/a/X}", "${" + v + "//o/0}", "${" + v + ":1:2}", "${" + v + "^^}", "${" + v + ",,}", "${" + v + ":-dflt}", "${" + v + ":+alt}", "${" + v + "/#f/F}", "${" + v + "/%r/R}", "${" + v + ": -2}", "${" + v + "^}"}) + "\"")
	case k == 41 && g.o.Simplifiable:
		g.f("simplifiable")
		g.line("echo " + g.pick([]string{
			"\"lit\\$x\"", "\"a\\\"b\"", "\"\\\\n\"", "\"plain\"", "$\"loc\"", "\"back\\`tick\"",
			"$\"a\\\\nb\"", "$\"t\\\\tx\"", "$\"q\\\"q\"", "\"x\\\\ty\"", "$\"c\\$d\"", "\"two\\\\\\\\bs\"", "$\"e\\\\x41\"",
			"$(( $" + g.iv() + " + (1) ))", "$(( (" + g.iv() + ") ))", "\"${arr[(1)]}\"", "\"${" + g.v() + ":(0):(2)}\"", "$( (echo nested) )", "\"${arr[$" + g.iv() + "]}\"", "$(( ${" + g.iv() + "} * 2 ))",
		}))
	case k == 43 && g.o.Simplifiable:
		// string comparisons in [[ ]] with quoted and unquoted operands on both
		// sides, over values that contain glob characters: whether the right
		// side is a pattern depends on exactly these quotes
		g.f("simplifiable-test-quoting")
		pv := g.pick([]string{"*", "a*", "?", "[ab]", "f*o", "ba?", "\\*"})
		pn := g.v()
		g.line(pn + "=" + "'" + pv + "'")
		side := func() string {
			return g.pick([]string{"\"$" + pn + "\"", "$" + pn, "\"${" + g.v() + "}\"", "$" + g.v(), "foo", "bar", "'*'", "\"a b\"", "ab"})
		}
		neg := g.pick([]string{"", "", "! "})
		rhs := side()
		if g.p(2) {
			rhs = "\"$" + pn + "\""
		}
		g.line("[[ " + neg + side() + " " + g.pick([]string{"=", "==", "!=", "="}) + " " + rhs + " ]] && echo yes || echo no")
	case k == 42 && g.o.Simplifiable:
		g.f("simplifiable")
		g.line(g.pick([]string{
			"[[ \"$" + g.v() + "\" == foo ]] && echo eq", "[[ ! -n $" + g.v() + " ]] && echo empty", "[[ ! a == b ]] && echo ne", "[[ (a == a) ]] && echo par", "( ( echo dbl ) )", "(( ($" + g.iv() + ") > 1 )) && echo gt", "[[ ! ! -z $" + g.v() + " ]] || echo nn", "[[ ! (\"$" + g.v() + "\" != foo) ]] && echo eq2",
			"[[ \"$" + g.v() + "\" = b* ]] && echo short", "[[ ! \"$" + g.v() + "\" =~ ^f ]] && echo nre", "[[ \"$" + g.iv() + "\" -eq 1 ]] && echo one", "[[ -n \"${" + g.v() + "}\" ]] && echo set", "[[ \"${" + g.v() + "}\" < \"$" + g.v() + "\" ]] && echo lt",
			"echo $(( ${" + g.iv() + "} + $" + g.iv() + " ))", "echo \"${" + g.v() + ":$" + g.iv() + ":${" + g.iv() + "}}\"", "(( ${" + g.iv() + "} )) && echo nz", "echo $(( ((" + g.iv() + ")) + ((2)) ))", "arr[(1)]=p; echo \"${arr[((1))]}\"", "echo \"$( ( ( echo deep ) ) )\"", "( ( exit 3 ) ); echo $?",
		}))
	default:
		return false
	}
	return true
}
