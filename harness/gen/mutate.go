package gen

import (
	"math/rand/v2"
	"strings"
)

// Dict is the byte-level dictionary of shell metacharacters and tokens.
var Dict = []string{
	" ", "\n", "\t", ";", "&", "|", "&&", "||", "(", ")", "{", "}", "<", ">", "<<", ">>", "<<-", "<<<", "<&", ">&", "&>", ">|", "<>",
	"$", "${", "$(", "$((", "`", "'", "\"", "\\", "\\\n", "#", "!", "=", "+=", "[", "]", "[[", "]]", "((", "))", "*", "?", "~", "-", ":", "/", "%", "^", ",", "@", ".",
	"if", "then", "elif", "else", "fi", "for", "in", "do", "done", "while", "until", "case", "esac", "function", "select", "time", "coproc", "declare", "local", "export", "let",
	";;", ";&", ";;&", ";|", "|&", "$'", "$\"", "<(", ">(", "EOF", "\r\n", "\r", "\x00", "\xff", "é", " ", "a", "x", "1", "0",
	"@(", "+(", "!(", "?(", "*(", "${#", "${!", ":-", ":=", ":?", ":+", "##", "%%", "//", "^^", ",,", "@Q", "$[", "@test", "repeat", "always",
}

// MutateBytes applies 1..3 byte-level mutations.
func MutateBytes(r *rand.Rand, s string, other string) string {
	n := 1 + r.IntN(3)
	for i := 0; i < n; i++ {
		pos := 0
		if len(s) > 0 {
			pos = r.IntN(len(s) + 1)
		}
		switch r.IntN(7) {
		case 0, 1: // insert from dictionary
			s = s[:pos] + Dict[r.IntN(len(Dict))] + s[pos:]
		case 2: // delete span
			if len(s) > 0 {
				end := pos + 1 + r.IntN(4)
				if end > len(s) {
					end = len(s)
				}
				s = s[:pos] + s[end:]
			}
		case 3: // flip a byte
			if pos < len(s) {
				b := []byte(s)
				b[pos] ^= byte(1 << r.IntN(8))
				s = string(b)
			}
		case 4: // duplicate span
			if len(s) > 0 {
				end := pos + 1 + r.IntN(8)
				if end > len(s) {
					end = len(s)
				}
				s = s[:end] + s[pos:end] + s[end:]
			}
		case 5: // splice with other
			if other != "" {
				q := r.IntN(len(other) + 1)
				s = s[:pos] + other[q:]
			}
		case 6: // truncate
			s = s[:pos]
		}
		if len(s) > 8000 {
			s = s[:8000]
		}
	}
	return s
}

// Wrap applies a structure-level mutation that keeps most programs parseable.
func Wrap(r *rand.Rand, s string, bashLike bool) string {
	body := strings.TrimRight(s, "\n")
	if strings.Contains(body, "<<") {
		// keep here-docs intact: only forms that end the line before the closer
		switch r.IntN(4) {
		case 0:
			return "{\n" + body + "\n}\n"
		case 1:
			return "(\n" + body + "\n)\n"
		case 2:
			return "f() {\n" + body + "\n}\n"
		default:
			return "x=$(\n" + body + "\n)\n"
		}
	}
	switch r.IntN(10) {
	case 0:
		return "{ " + body + "; }"
	case 1:
		return "(" + body + ")"
	case 2:
		return "f() { " + body + "; }; f"
	case 3:
		return "x=$(" + body + ")"
	case 4:
		return "if " + body + "; then " + body + "; fi"
	case 5:
		return "while " + body + "; do break; done"
	case 6:
		return "echo \"$(" + body + ")\""
	case 7:
		return "cat <<EOF\n$(" + body + ")\nEOF\n"
	case 8:
		if !strings.ContainsAny(body, "`\\") {
			return "echo `" + body + "`"
		}
		return body + " | cat"
	default:
		return body + " && " + body
	}
}

// Relayout changes layout only: re-indentation, blank lines, ';' <-> newline at
// the top level of simple inputs, and line continuations between tokens.
func Relayout(r *rand.Rand, s string) string {
	lines := strings.Split(s, "\n")
	if strings.Contains(s, "<<") {
		return s + "\n"
	}
	var out []string
	for _, l := range lines {
		switch r.IntN(6) {
		case 0:
			l = strings.Repeat(" ", r.IntN(6)) + l
		case 1:
			l = "\t" + l
		case 2:
			out = append(out, "")
		case 3:
			if i := strings.Index(l, " "); i > 0 && !strings.ContainsAny(l, "'\"#`") {
				l = l[:i] + " \\\n" + l[i+1:]
			}
		}
		out = append(out, l)
	}
	return strings.Join(out, "\n")
}
