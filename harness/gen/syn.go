package gen

import (
	"fmt"
	"math/rand/v2"
	"strings"

	"mvdan.cc/sh/v3/syntax"
)

// SynOpts configures the syntactic program generator (W2). The output is source
// text; callers filter by whether it parses.
type SynOpts struct {
	Lang     syntax.LangVariant
	Mixed    bool // offer constructs from every variant regardless of Lang (C11)
	Depth    int  // nesting budget
	Comments bool
	Hostile  bool // CRLF, NUL-free odd bytes, escaped newlines in odd places
}

type sg struct {
	r       *rand.Rand
	o       SynOpts
	b       strings.Builder
	pending []string // here-doc bodies waiting for the next newline
	hd      int
	feat    map[string]bool
	indent  int
}

// Program generates one program.
func Program(r *rand.Rand, o SynOpts) (src string, features []string) {
	if o.Depth == 0 {
		o.Depth = 3
	}
	g := &sg{r: r, o: o, feat: map[string]bool{}}
	n := 1 + r.IntN(4)
	for i := 0; i < n; i++ {
		g.stmt(o.Depth)
		g.endStmt()
	}
	g.flush()
	for f := range g.feat {
		features = append(features, f)
	}
	return g.b.String(), features
}

func (g *sg) bash() bool {
	return g.o.Mixed || g.o.Lang == syntax.LangBash || g.o.Lang == syntax.LangBats
}
func (g *sg) mksh() bool  { return g.o.Mixed || g.o.Lang == syntax.LangMirBSDKorn }
func (g *sg) zsh() bool   { return g.o.Mixed || g.o.Lang == syntax.LangZsh }
func (g *sg) bats() bool  { return g.o.Mixed || g.o.Lang == syntax.LangBats }
func (g *sg) ext() bool   { return g.bash() || g.mksh() || g.zsh() } // non-POSIX features common to all three
func (g *sg) bashm() bool { return g.bash() || g.mksh() }

func (g *sg) w(s string)               { g.b.WriteString(s) }
func (g *sg) f(name string)            { g.feat[name] = true }
func (g *sg) p(n int) bool             { return g.r.IntN(n) == 0 }
func (g *sg) pick(xs ...string) string { return xs[g.r.IntN(len(xs))] }

func (g *sg) nl() {
	g.w("\n")
	g.flush()
}

func (g *sg) flush() {
	if len(g.pending) == 0 {
		return
	}
	if !strings.HasSuffix(g.b.String(), "\n") {
		g.w("\n")
	}
	p := g.pending
	g.pending = nil
	for _, body := range p {
		g.w(body)
	}
}

// sep separates two statements.
func (g *sg) sep() {
	if len(g.pending) > 0 || g.p(2) {
		if g.o.Comments && g.p(6) {
			g.w(" # c" + fmt.Sprint(g.r.IntN(100)))
		}
		g.nl()
		if g.p(8) {
			g.w("\n")
		}
		if g.o.Comments && g.p(8) {
			g.w("# line comment " + fmt.Sprint(g.r.IntN(100)) + "\n")
		}
		if g.p(3) {
			g.w(strings.Repeat(g.pick("\t", " ", "  "), g.r.IntN(3)))
		}
	} else {
		g.w(g.pick("; ", ";", " ; "))
	}
}

func (g *sg) endStmt() {
	if g.p(12) && len(g.pending) == 0 {
		g.w(" &")
		g.f("background")
	}
	g.sep()
}

func (g *sg) stmts(d int) {
	n := 1 + g.r.IntN(3)
	for i := 0; i < n; i++ {
		if i > 0 {
			g.sep()
		}
		g.stmt(d)
	}
}

// block emits a statement list terminated so that a closing keyword may follow.
func (g *sg) block(d int) {
	g.stmts(d)
	if len(g.pending) > 0 || g.p(2) {
		g.nl()
	} else {
		g.w("; ")
	}
}

func (g *sg) stmt(d int) {
	if g.p(10) {
		g.w("! ")
		g.f("negated")
	}
	g.pipeline(d)
	for d > 0 && g.p(5) {
		g.binOp(g.pick("&&", "||"))
		g.pipeline(d - 1)
		g.f("andor")
	}
}

// binOp writes a binary operator in one of the layouts sources use: inline,
// operator then newline, operator leading a continuation line, and operator
// followed by a comment line.
func (g *sg) binOp(op string) {
	switch k := g.r.IntN(16); {
	case k < 3:
		g.w(" " + op)
		g.nl()
	case k == 3 && len(g.pending) == 0:
		g.f("operator-leads-continuation")
		g.w(" \\\n\t" + op + " ")
	case k == 4 && g.o.Comments && len(g.pending) == 0:
		g.f("comment-after-operator")
		g.w(" " + op + " # c\n")
	default:
		g.w(" " + op + " ")
	}
}

func (g *sg) pipeline(d int) {
	g.command(d)
	for d > 0 && g.p(5) {
		op := " | "
		if g.bash() && g.p(6) {
			op = " |& "
			g.f("pipeall")
		}
		g.binOp(strings.TrimSpace(op))
		g.command(d - 1)
		g.f("pipe")
	}
}

func (g *sg) command(d int) {
	if g.p(28) {
		// a statement made of redirections only
		g.f("bare-redirect")
		g.redir(d)
		if g.p(3) {
			g.w(" ")
			g.redir(d)
		}
		return
	}
	if d <= 0 {
		g.simple(0)
		return
	}
	k := g.r.IntN(34)
	switch {
	case k < 12:
		g.simple(d)
	case k == 12:
		g.f("subshell")
		g.w("(")
		if g.p(3) {
			g.w(" ")
		}
		g.stmts(d - 1)
		if len(g.pending) > 0 {
			g.nl()
		}
		g.w(")")
		g.redirs(d)
	case k == 13:
		g.f("block")
		g.w("{ ")
		g.block(d - 1)
		g.w("}")
		g.redirs(d)
	case k == 14 || k == 15:
		g.f("if")
		g.w("if ")
		g.block(d - 1)
		g.w("then ")
		g.block(d - 1)
		for g.p(4) {
			g.w("elif ")
			g.block(d - 1)
			g.w("then ")
			g.block(d - 1)
		}
		if g.p(2) {
			g.w("else ")
			g.block(d - 1)
		}
		g.w("fi")
		g.redirs(d)
	case k == 16:
		g.f("while")
		g.w(g.pick("while ", "until "))
		g.block(d - 1)
		g.w("do ")
		g.block(d - 1)
		g.w("done")
		g.redirs(d)
	case k == 17:
		g.f("for")
		g.w("for " + g.name())
		switch g.r.IntN(3) {
		case 0:
			g.w(" in")
			for i := g.r.IntN(4); i > 0; i-- {
				g.w(" ")
				g.word(d - 1)
			}
			g.w(g.pick("; ", "\n"))
		case 1:
			g.w(g.pick("; ", "\n", " "))
		default:
			g.w(" in ")
			g.word(d - 1)
			g.w("\n")
		}
		if g.ext() && !g.zsh() && g.p(8) {
			g.f("for-braces")
			g.w("{ ")
			g.block(d - 1)
			g.w("}")
		} else {
			g.w("do ")
			g.block(d - 1)
			g.w("done")
		}
	case k == 18 || k == 19:
		g.caseClause(d)
	case k == 20:
		g.f("funcdecl")
		switch {
		case g.ext() && g.p(3):
			g.w("function " + g.fname() + g.pick(" ", "() ", " () "))
		default:
			g.w(g.fname() + g.pick("() ", " () ", "()\n", "( ) "))
		}
		if g.p(4) {
			g.command(d - 1)
		} else {
			g.w("{ ")
			g.block(d - 1)
			g.w("}")
			g.redirs(d)
		}
	case k == 21 && g.ext():
		g.f("testclause")
		g.w("[[ ")
		g.testExpr(d - 1)
		g.w(" ]]")
	case k == 22 && g.ext():
		g.f("arithmcmd")
		g.w("((")
		g.arith(d-1, false)
		g.w("))")
	case k == 23 && g.ext():
		g.f("cstyle-for")
		g.w("for ((")
		if g.p(2) {
			g.arith(d-1, false)
		}
		g.w("; ")
		if g.p(2) {
			g.arith(d-1, false)
		}
		g.w("; ")
		if g.p(2) {
			g.arith(d-1, false)
		}
		g.w(g.pick(")); ", "))\n"))
		g.w("do ")
		g.block(d - 1)
		g.w("done")
	case k == 24 && g.bashm():
		g.f("decl")
		g.w(g.pick("declare", "local", "export", "readonly", "typeset", "nameref"))
		for i := g.r.IntN(3); i > 0; i-- {
			g.w(" " + g.pick("-a", "-A", "-r", "-x", "-i", "-g", "-n", "-p", "+x"))
		}
		for i := g.r.IntN(3); i > 0; i-- {
			g.w(" ")
			if g.p(2) {
				g.assign(d - 1)
			} else {
				g.word(d - 1)
			}
		}
	case k == 25 && g.bashm():
		g.f("let")
		g.w("let ")
		g.arith(d-1, true)
		if g.p(3) {
			g.w(" ")
			g.arith(d-1, true)
		}
	case k == 26 && g.bashm():
		g.f("time")
		g.w("time ")
		if g.p(3) {
			g.w("-p ")
		}
		g.pipelineNoNeg(d - 1)
	case k == 27 && g.bash():
		g.f("coproc")
		g.w("coproc ")
		if g.p(2) {
			g.w(g.name() + " { ")
			g.block(d - 1)
			g.w("}")
		} else {
			g.simple(d - 1)
		}
	case k == 28 && g.bashm():
		g.f("select")
		g.w("select " + g.name() + " in ")
		g.word(d - 1)
		g.w("; do ")
		g.block(d - 1)
		g.w("done")
	case k == 29 && g.bats():
		g.f("bats-test")
		g.w("@test " + g.pick("\"desc\"", "'a b'", "name") + " { ")
		g.block(d - 1)
		g.w("}")
	case k == 30 && g.zsh():
		switch g.r.IntN(4) {
		case 0:
			g.f("zsh-anonfunc")
			g.w("() { ")
			g.block(d - 1)
			g.w("}")
			if g.p(2) {
				g.w(" ")
				g.word(d - 1)
			}
		case 1:
			g.f("zsh-if-braces")
			g.w("if [[ -n $x ]] { ")
			g.block(d - 1)
			g.w("}")
			if g.p(2) {
				g.w(" else { ")
				g.block(d - 1)
				g.w("}")
			}
		case 2:
			g.f("zsh-repeat")
			g.w("repeat 3; do ")
			g.block(d - 1)
			g.w("done")
		default:
			g.f("zsh-foreach")
			g.w("for " + g.name() + " (")
			g.word(d - 1)
			g.w(") ")
			g.simple(d - 1)
		}
	case k == 31 && g.mksh() && !g.bash():
		g.f("mksh-case-braces")
		g.w("case ")
		g.word(d - 1)
		g.w(" { ")
		g.w(g.pick("a", "*", "x|y"))
		g.w(") ")
		g.stmts(d - 1)
		g.w(" ;; }")
	default:
		g.simple(d)
	}
}

func (g *sg) pipelineNoNeg(d int) {
	g.command(d)
	if g.p(3) {
		g.w(" | ")
		g.command(d)
	}
}

func (g *sg) caseClause(d int) {
	g.f("case")
	g.w("case ")
	g.word(d - 1)
	g.w(" in")
	g.w(g.pick(" ", "\n", "\n\t"))
	n := g.r.IntN(4)
	for i := 0; i < n; i++ {
		if g.p(3) {
			g.w("(")
		}
		g.pattern(d - 1)
		for g.p(4) {
			g.w(g.pick("|", " | "))
			g.pattern(d - 1)
		}
		g.w(")")
		g.w(g.pick(" ", "\n", ""))
		if !g.p(5) {
			g.stmts(d - 1)
		}
		last := i == n-1
		if last && g.p(3) {
			if len(g.pending) > 0 {
				g.nl()
			} else {
				g.w(g.pick("\n", "; ", " "))
			}
			break
		}
		if len(g.pending) > 0 {
			g.nl()
		}
		op := ";;"
		if g.bashm() && g.p(5) {
			op = g.pick(";&", ";;&")
			if g.mksh() && !g.bash() && op == ";;&" {
				op = ";|"
			}
			g.f("case-fallthrough")
		}
		if g.o.Comments && g.p(6) {
			g.w(" " + op + " # item\n")
		} else {
			g.w(g.pick(" ", "\n") + op + g.pick(" ", "\n"))
		}
	}
	g.w("esac")
	g.redirs(d)
}

func (g *sg) pattern(d int) {
	switch g.r.IntN(8) {
	case 0:
		g.w("*")
	case 1:
		g.w(g.pick("a*", "?b", "[a-z]*", "[!x]", "*.sh", "\"q\"*", "'lit'", "a\\ b"))
	case 2:
		if g.ext() && g.p(2) {
			g.f("extglob")
			g.w(g.pick("@(a|b)", "+(x)", "!(y)", "?(z)*", "*(a|b)c"))
		} else {
			g.w("x")
		}
	default:
		g.word(d)
	}
}

var names = []string{"a", "b", "x", "foo", "bar", "i", "_v", "A1", "PATH", "arr", "n"}

func (g *sg) name() string  { return names[g.r.IntN(len(names))] }
func (g *sg) fname() string { return g.pick("f", "fn", "foo_bar", "g1", "f-x", "my.func") }

func (g *sg) assign(d int) {
	g.w(g.name())
	if g.bashm() && g.p(6) {
		g.f("assign-index")
		g.w("[")
		g.arith(d-1, true)
		g.w("]")
	}
	if g.bashm() && g.p(6) {
		g.w("+")
		g.f("assign-append")
	}
	g.w("=")
	switch {
	case g.ext() && g.p(5):
		g.f("array")
		g.w("(")
		n := g.r.IntN(4)
		for i := 0; i < n; i++ {
			if i > 0 || g.p(3) {
				g.w(g.pick(" ", "\n", "  "))
			}
			if g.bashm() && g.p(4) {
				g.w("[")
				g.arith(d-1, true)
				g.w("]=")
			}
			g.word(d - 1)
			if g.o.Comments && g.p(8) {
				g.w(" # elem\n")
			}
		}
		g.w(")")
	case g.p(4):
	default:
		g.word(d - 1)
	}
}

func (g *sg) simple(d int) {
	na := 0
	for g.p(5) {
		g.assign(d)
		g.w(" ")
		na++
	}
	if na > 0 && g.p(2) {
		g.b.Len()
		// assignment-only statement: trim trailing space
		s := g.b.String()
		g.b.Reset()
		g.b.WriteString(strings.TrimSuffix(s, " "))
		g.redirs(d)
		return
	}
	if g.p(10) {
		g.redir(d)
		g.w(" ")
	}
	g.w(g.pick("echo", "echo", "printf", ":", "true", "false", "cat", "foo", "test", "[", "read", "set", "cd", "exit", "return", "eval", "x-y", "./a.sh", "break", "unset", "shift", "wait"))
	n := g.r.IntN(4)
	for i := 0; i < n; i++ {
		g.w(" ")
		if g.o.Hostile && g.p(10) {
			g.w("\\\n")
		}
		g.word(d)
	}
	g.redirs(d)
}

func (g *sg) redirs(d int) {
	for g.p(6) {
		g.w(" ")
		g.redir(d)
	}
}

func (g *sg) redir(d int) {
	g.f("redirect")
	if g.p(5) {
		g.w(g.pick("2", "1", "0", "3", "10"))
	} else if g.bash() && g.p(12) {
		g.w("{" + g.name() + "}")
		g.f("redirect-named-fd")
	}
	k := g.r.IntN(16)
	switch {
	case k < 4:
		g.w(g.pick(">", ">>", "<", "<>", ">|"))
		g.w(g.pick("", " "))
		g.w(g.pick("/dev/null", "f", "out.txt"))
	case k == 4:
		g.w(g.pick(">&", "<&"))
		g.w(g.pick("1", "2", "-", "3"))
	case k == 5 && g.ext():
		g.w(g.pick("&>", "&>>"))
		g.w(g.pick("", " ") + "f")
		g.f("redirect-all")
	case k == 6 && g.ext():
		g.w("<<<" + g.pick("", " "))
		g.word(d - 1)
		g.f("herestring")
	case k == 7 || k == 8 || k == 9:
		g.heredoc(d)
	default:
		g.w(">")
		g.word(d - 1)
	}
}

func (g *sg) heredoc(d int) {
	g.f("heredoc")
	g.hd++
	delim := g.pick("EOF", "E", "END_"+fmt.Sprint(g.hd), "!", "a-b")
	dash := g.p(3)
	quoted := g.p(4)
	op := "<<"
	if dash {
		op = "<<-"
		g.f("heredoc-dash")
	}
	g.w(op + g.pick("", " "))
	if quoted {
		g.w(g.pick("'"+delim+"'", "\""+delim+"\"", "\\"+delim))
		g.f("heredoc-quoted")
	} else {
		g.w(delim)
	}
	var body strings.Builder
	lines := g.r.IntN(4)
	for i := 0; i < lines; i++ {
		if dash {
			body.WriteString(strings.Repeat("\t", g.r.IntN(3)))
		}
		switch {
		case quoted:
			body.WriteString(g.pick("plain $x `y` \\", "  text", "", "$(", "' \""))
		default:
			sub := &sg{r: g.r, o: g.o, feat: g.feat}
			sub.o.Hostile = false
			switch g.r.IntN(6) {
			case 0:
				sub.w("plain text")
			case 1:
				sub.w("v=$" + g.name() + " ${" + g.name() + "}")
			case 2:
				if d > 0 {
					sub.w("sub $(")
					sub.simple(0)
					if len(sub.pending) > 0 {
						sub.nl()
					}
					sub.w(") end")
				} else {
					sub.w("x")
				}
			case 3:
				sub.w("q \" ' \\$ \\\\ \\` done")
			case 4:
				sub.w("$((1 + 2)) `echo bq`")
			default:
				sub.w("  indented\ttab")
			}
			body.WriteString(sub.b.String())
		}
		body.WriteString("\n")
	}
	if dash {
		body.WriteString(strings.Repeat("\t", g.r.IntN(3)))
	}
	body.WriteString(delim + "\n")
	g.pending = append(g.pending, body.String())
}

func (g *sg) word(d int) {
	if g.bashm() && g.p(14) {
		g.f("brace-word")
		g.w(g.pick("{a,b}", "x{1..3}y", "{a,b}{c,d}", "pre{,x}", "{a..e..2}"))
		return
	}
	n := 1
	if g.p(3) {
		n = 2 + g.r.IntN(2)
	}
	for i := 0; i < n; i++ {
		g.wordPart(d, i == 0)
	}
}

func (g *sg) lit() string {
	return g.pick("a", "foo", "bar", "x1", "-n", "--opt=v", "a.b", "/tmp/x", "~", "~/x", "1", "42", "%s\\n", "a\\ b", "\\$x", "\\\"", "*", "?", "[a-z]", "a=b", "é", "日本", "if", "done", "}", "{", "!", "@", "+x", ",", "^", "=")
}

func (g *sg) wordPart(d int, first bool) {
	k := g.r.IntN(24)
	switch {
	case k < 7:
		l := g.lit()
		if !first && (l == "}" || l == "{" || l == "if" || l == "done" || l == "!" || l == "~" || l == "~/x") {
			l = "z"
		}
		if first && (l == "}" || l == "{" || l == "if" || l == "done" || l == "!") {
			l = "lit"
		}
		g.w(l)
	case k < 9:
		g.f("sglquoted")
		g.w("'" + g.pick("", "a b", "$x", "\"", "\\", "a\nb", "#", "`") + "'")
	case k < 12:
		g.f("dblquoted")
		g.w("\"")
		for i := g.r.IntN(3); i >= 0; i-- {
			switch g.r.IntN(6) {
			case 0:
				g.w(g.pick("a b", "", "\\\"", "\\$", "\\\\", "\\n", "'", "#", "*", "\\`", "a\\\nb"))
			case 1:
				g.paramExp(d-1, true)
			case 2:
				if d > 0 {
					g.cmdSubst(d - 1)
				} else {
					g.w("x")
				}
			case 3:
				g.w("$((")
				g.arith(d-1, false)
				g.w("))")
			default:
				g.w(g.pick("text", " ", "x=1"))
			}
		}
		g.w("\"")
	case k < 15:
		g.paramExp(d-1, false)
	case k == 15:
		if d > 0 {
			g.cmdSubst(d - 1)
		} else {
			g.w("$x")
		}
	case k == 16:
		g.f("arithmexp")
		if g.bash() && g.p(6) {
			g.f("arithmexp-bracket")
			g.w("$[")
			g.arith(d-1, false)
			g.w("]")
		} else {
			g.w("$((")
			g.arith(d-1, false)
			g.w("))")
		}
	case k == 17 && g.ext():
		g.f("ansi-c-quote")
		g.w("$'" + g.pick("a\\nb", "\\t", "\\'", "\\x41", "\\u00e9", "\\\\", "x", "\\e[0m", "\\101", "a b") + "'")
	case k == 18 && g.bash():
		g.f("locale-quote")
		g.w("$\"" + g.pick("msg", "a $x b", "q\\\"", "a\\\\nb", "") + "\"")
	case k == 19 && g.ext() && d > 0:
		g.f("procsubst")
		g.w(g.pick("<(", ">("))
		g.stmts(d - 1)
		if len(g.pending) > 0 {
			g.nl()
		}
		g.w(")")
	case k == 20 && g.ext():
		g.f("extglob")
		g.w(g.pick("@(a|b)", "+(x|y)", "!(z)", "?(a)", "*(b)"))
	case k == 21 && g.zsh():
		g.f("zsh-word")
		g.w(g.pick("*(.)", "<1-10>", "<->", "${(f)x}", "$=x", "${=x}", "${~x}", "${^x}", "${==x}", "*.c(#q.)", "$#x", "${+x}", "$x[1]", "${x[1,2]}", "${(j:,:)x}", "=ls"))
	case k == 22 && g.mksh() && d > 0:
		g.f("mksh-subst")
		if g.p(2) {
			g.w("${ ")
			g.simple(0)
			g.w(";}")
		} else {
			g.w("${|REPLY=x;}")
		}
	default:
		g.w(g.lit()[:1])
	}
}

func (g *sg) cmdSubst(d int) {
	g.f("cmdsubst")
	if g.p(4) {
		g.f("backquotes")
		sub := &sg{r: g.r, o: g.o, feat: g.feat}
		sub.o.Hostile = false
		sub.stmtNoBq(d)
		if len(sub.pending) > 0 {
			sub.nl()
		}
		s := sub.b.String()
		// inside back-quotes, backslashes before $ ` \ need doubling
		s = strings.ReplaceAll(s, "\\", "\\\\")
		s = strings.ReplaceAll(s, "`", "\\`")
		g.w("`" + s + "`")
		return
	}
	g.w("$(")
	if g.p(8) {
		g.w(" ")
	}
	if g.p(12) {
		g.w("<f")
	} else {
		g.stmts(d)
	}
	if len(g.pending) > 0 {
		g.nl()
	}
	g.w(")")
}

// stmtNoBq emits a simple statement without back-quotes or here-docs (for use
// inside back-quotes, where nesting needs escalating escapes).
func (g *sg) stmtNoBq(d int) {
	g.w(g.pick("echo", "cat", "foo"))
	for i := g.r.IntN(3); i > 0; i-- {
		g.w(" " + g.pick("a", "$x", "\"q $y\"", "'s'", "${z:-d}", "$(inner)", "$((1+2))", "b\\ c"))
	}
	if g.p(4) {
		g.w(" | " + g.pick("cat", "wc -l"))
	}
}

func (g *sg) paramExp(d int, quoted bool) {
	g.f("paramexp")
	if g.p(3) {
		g.w("$" + g.pick("x", "foo", "1", "@", "*", "#", "?", "$", "!", "-", "0", "_v"))
		return
	}
	g.w("${")
	nm := g.pick("x", "foo", "1", "@", "*", "arr", "10", "_v")
	k := g.r.IntN(22)
	idx := func() {
		if g.bashm() && g.p(3) {
			g.f("paramexp-index")
			g.w("[" + g.pick("@", "*", "0", "1", "i+1", "$i", "-1") + "]")
		}
	}
	arg := func() {
		if d > 0 && g.p(2) {
			g.word(d - 1)
		} else {
			g.w(g.pick("", "d", "a b", "\"q\"", "*", "?x", "$y", "'s'"))
		}
	}
	switch {
	case k < 3:
		g.w(nm)
		idx()
	case k < 8:
		g.w(nm)
		idx()
		g.w(g.pick(":-", "-", ":=", "=", ":?", "?", ":+", "+", "#", "##", "%", "%%"))
		arg()
	case k == 8:
		g.w("#" + nm)
		idx()
	case k == 9 && g.ext():
		g.f("paramexp-slice")
		g.w(nm)
		idx()
		g.w(":" + g.pick("1", "0:2", " -1", "i", "1:$n", "(1)", ":2"))
	case k == 10 && g.ext():
		g.f("paramexp-repl")
		g.w(nm)
		idx()
		g.w(g.pick("/", "//", "/#", "/%"))
		g.w(g.pick("a", "*", "?", "[ab]", "a b"))
		if g.p(2) {
			g.w("/")
			arg()
		}
	case k == 11 && g.bash():
		g.f("paramexp-case")
		g.w(nm)
		idx()
		g.w(g.pick("^", "^^", ",", ",,"))
		if g.p(2) {
			g.w(g.pick("a", "[a-c]", "?"))
		}
	case k == 12 && g.bash():
		g.f("paramexp-op")
		g.w(nm)
		idx()
		g.w("@" + g.pick("Q", "E", "P", "A", "a", "U", "u", "L", "K", "k"))
	case k == 13 && g.bashm():
		g.f("paramexp-excl")
		g.w("!" + g.pick("x", "foo", "arr[@]", "arr[*]", "pre*", "pre@"))
	case k == 14 && g.zsh():
		g.f("zsh-paramexp")
		g.w(g.pick("(f)x", "=x", "~x", "^x", "+x", "x:h", "x:t:r", "${x}", "(s:,:)x", "x[2,-1]", "x:#pat", "x:|y"))
	case k == 15 && g.mksh():
		g.w("%" + nm)
		g.f("mksh-width")
	default:
		g.w(nm)
	}
	g.w("}")
	if g.p(4) {
		// text glued to the closing brace: whether the braces may be dropped
		// (Minify) depends on exactly this character
		g.f("paramexp-glued-text")
		g.w(g.pick("2", "0z", "_x", "a", "Z9", "[1]", "-", ".", "é", ":", "{", "@", "*", "#", "?", "!", "$"))
	}
}

func (g *sg) arith(d int, noSpace bool) {
	sp := " "
	if noSpace {
		sp = ""
	}
	k := g.r.IntN(14)
	switch {
	case d <= 0 || k < 4:
		g.w(g.pick("1", "0", "42", "x", "i", "$x", "${y}", "0x1f", "010", "n", "arr[1]", "2#101"))
	case k < 8:
		g.arith(d-1, noSpace)
		g.w(sp + g.pick("+", "-", "*", "/", "%", "<", ">", "<=", "==", "!=", "&&", "||", "&", "|", "^", "<<", ">>", "**", ",") + sp)
		g.arith(d-1, noSpace)
	case k == 8:
		g.w("(")
		g.arith(d-1, noSpace)
		g.w(")")
	case k == 9:
		g.w(g.pick("-", "!", "~", "+", "++", "--"))
		g.w(g.pick("x", "i", "n"))
	case k == 10:
		g.w(g.pick("x", "i", "n") + g.pick("++", "--"))
	case k == 11:
		g.w(g.pick("x", "i", "n", "arr[0]") + sp + g.pick("=", "+=", "-=", "*=", "/=", "%=", "<<=", ">>=", "&=", "|=", "^=") + sp)
		g.arith(d-1, noSpace)
	case k == 12:
		g.arith(d-1, noSpace)
		g.w(sp + "?" + sp)
		g.arith(d-1, noSpace)
		g.w(sp + ":" + sp)
		g.arith(d-1, noSpace)
	default:
		if d > 0 && !noSpace {
			g.cmdSubst(0)
		} else {
			g.w("7")
		}
	}
}

func (g *sg) testExpr(d int) {
	k := g.r.IntN(12)
	switch {
	case d <= 0 || k < 3:
		g.w(g.pick("-n ", "-z ", "-e ", "-f ", "-d ", "-v ", "! -x ", ""))
		g.testWord(d)
	case k < 6:
		g.testWord(d)
		g.w(" " + g.pick("==", "=", "!=", "<", ">", "-eq", "-ne", "-lt", "-nt", "-ef") + " ")
		g.testWord(d)
	case k == 6:
		g.testWord(d)
		g.w(" =~ " + g.pick("^a.*b$", "[0-9]+", "a|b", "(x)(y)", "$re", "\"lit\"", "^(a b)$", "x\\.y"))
	case k == 7:
		g.w("( ")
		g.testExpr(d - 1)
		g.w(" )")
	case k == 8:
		g.w("! ")
		g.testExpr(d - 1)
	default:
		g.testExpr(d - 1)
		g.w(" " + g.pick("&&", "||") + " ")
		if g.p(5) {
			g.w("\n")
		}
		g.testExpr(d - 1)
	}
}

func (g *sg) testWord(d int) {
	switch g.r.IntN(6) {
	case 0:
		g.w("$" + g.name())
	case 1:
		g.w("\"$" + g.name() + "\"")
	case 2:
		g.w(g.pick("a", "foo", "1", "*.sh", "a*", "'q'", "\"\"", "@(a|b)"))
	default:
		g.word(d - 1)
	}
}
