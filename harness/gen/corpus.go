// Package gen holds the seeded workload generators: corpus extraction from the
// repository's own tests (W1), grammar generators (W2), mutators (W3) and the
// domain generators (W4).
package gen

import (
	"go/ast"
	"go/parser"
	"go/token"
	"os"
	"path/filepath"
	"sort"
	"strconv"
	"strings"
	"sync"
)

// Corpus is what was harvested from the repository's test files. No test code
// is executed: string literals are collected structurally with go/parser.
type Corpus struct {
	Snippets []string     // every distinct string literal that looks like shell source
	Interp   []InterpCase // {in, want} pairs of interp.runTests
	ErrCases []ErrCase    // errCase(...) inputs of syntax/parser_test.go
	Flip2    []string     // fileTest inputs marked flipConfirm2
}

type InterpCase struct {
	In, Want string
}

type ErrCase struct {
	In      string
	Msgs    []string // langErr messages
	Flipped bool     // any flipConfirm marker present
}

var (
	corpusOnce sync.Once
	corpus     *Corpus
)

// LoadCorpus harvests the repo's tests once per process.
func LoadCorpus(repo string) *Corpus {
	corpusOnce.Do(func() { corpus = loadCorpus(repo) })
	return corpus
}

func loadCorpus(repo string) *Corpus {
	c := &Corpus{}
	seen := map[string]bool{}
	add := func(s string) {
		if len(s) == 0 || len(s) > 4000 || seen[s] {
			return
		}
		seen[s] = true
		c.Snippets = append(c.Snippets, s)
	}
	dirs := []string{"syntax", "interp", "expand", "pattern", "shell", "cmd/shfmt", "cmd/gosh", "syntax/typedjson", "fileutil"}
	fset := token.NewFileSet()
	for _, d := range dirs {
		files, _ := filepath.Glob(filepath.Join(repo, d, "*_test.go"))
		sort.Strings(files)
		for _, fn := range files {
			f, err := parser.ParseFile(fset, fn, nil, 0)
			if err != nil {
				continue
			}
			base := filepath.Base(fn)
			ast.Inspect(f, func(n ast.Node) bool {
				switch x := n.(type) {
				case *ast.BasicLit:
					if x.Kind == token.STRING {
						if s, err := strconv.Unquote(x.Value); err == nil {
							add(s)
						}
					}
				case *ast.CompositeLit:
					if d == "interp" && len(x.Elts) == 2 {
						a, ok1 := strLit(x.Elts[0])
						b, ok2 := strLit(x.Elts[1])
						if ok1 && ok2 {
							c.Interp = append(c.Interp, InterpCase{a, b})
						}
					}
				case *ast.CallExpr:
					id, ok := x.Fun.(*ast.Ident)
					if !ok {
						return true
					}
					switch {
					case id.Name == "errCase" && base == "parser_test.go" && len(x.Args) > 0:
						in, ok := strLit(x.Args[0])
						if !ok {
							return true
						}
						ec := ErrCase{In: in}
						for _, a := range x.Args[1:] {
							switch y := a.(type) {
							case *ast.CallExpr:
								if fid, ok := y.Fun.(*ast.Ident); ok {
									if fid.Name == "langErr" && len(y.Args) > 0 {
										if m, ok := strLit(y.Args[0]); ok {
											ec.Msgs = append(ec.Msgs, m)
										}
									}
									if strings.HasPrefix(fid.Name, "flipConfirm") {
										ec.Flipped = true
									}
								}
							case *ast.Ident:
								if strings.HasPrefix(y.Name, "flipConfirm") {
									ec.Flipped = true
								}
							}
						}
						c.ErrCases = append(c.ErrCases, ec)
					case id.Name == "fileTest" && len(x.Args) > 0:
						flipped := false
						for _, a := range x.Args[1:] {
							if y, ok := a.(*ast.CallExpr); ok {
								if fid, ok := y.Fun.(*ast.Ident); ok && fid.Name == "flipConfirm2" {
									flipped = true
								}
							}
						}
						if flipped {
							if cl, ok := x.Args[0].(*ast.CompositeLit); ok {
								for _, e := range cl.Elts {
									if s, ok := strLit(e); ok {
										c.Flip2 = append(c.Flip2, s)
									}
								}
							}
						}
					}
				}
				return true
			})
		}
	}
	// plain files
	for _, pat := range []string{"syntax/canonical.sh", "syntax/testdata/*", "cmd/shfmt/testdata/script/*.txtar"} {
		files, _ := filepath.Glob(filepath.Join(repo, pat))
		sort.Strings(files)
		for _, fn := range files {
			b, err := os.ReadFile(fn)
			if err != nil || len(b) > 1<<16 {
				continue
			}
			if strings.HasSuffix(fn, ".txtar") {
				for _, part := range splitTxtar(string(b)) {
					add(part)
				}
				continue
			}
			add(string(b))
		}
	}
	// fuzz corpus files: "go test fuzz v1\nstring(\"...\")"
	fz, _ := filepath.Glob(filepath.Join(repo, "syntax/testdata/fuzz/*/*"))
	sort.Strings(fz)
	for _, fn := range fz {
		b, err := os.ReadFile(fn)
		if err != nil {
			continue
		}
		for _, line := range strings.Split(string(b), "\n") {
			if strings.HasPrefix(line, "string(") && strings.HasSuffix(line, ")") {
				if s, err := strconv.Unquote(line[7 : len(line)-1]); err == nil {
					add(s)
				}
			}
		}
	}
	return c
}

func strLit(e ast.Expr) (string, bool) {
	switch x := e.(type) {
	case *ast.BasicLit:
		if x.Kind == token.STRING {
			s, err := strconv.Unquote(x.Value)
			return s, err == nil
		}
	case *ast.BinaryExpr:
		if x.Op == token.ADD {
			a, ok1 := strLit(x.X)
			b, ok2 := strLit(x.Y)
			return a + b, ok1 && ok2
		}
	case *ast.ParenExpr:
		return strLit(x.X)
	}
	return "", false
}

func splitTxtar(s string) []string {
	var parts []string
	var cur strings.Builder
	in := false
	for _, line := range strings.SplitAfter(s, "\n") {
		if strings.HasPrefix(line, "-- ") && strings.HasSuffix(strings.TrimRight(line, "\n"), " --") {
			if in && cur.Len() > 0 {
				parts = append(parts, cur.String())
			}
			cur.Reset()
			in = true
			continue
		}
		if in {
			cur.WriteString(line)
		}
	}
	if in && cur.Len() > 0 {
		parts = append(parts, cur.String())
	}
	return parts
}
