// Command vcheck runs one property monitor; see ../../mon.
package main

import (
	"verif/mon"
	_ "verif/props"
)

func main() { mon.Main() }
