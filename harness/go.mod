module verif

go 1.26.0

require mvdan.cc/sh/v3 v3.0.0

replace mvdan.cc/sh/v3 => /repo
