package oracle

import (
	"bytes"
	"context"
	"fmt"
	"io"
	"os"
	"path/filepath"
	"runtime/debug"
	"strings"
	"sync"
	"time"

	"mvdan.cc/sh/v3/expand"
	"mvdan.cc/sh/v3/interp"
	"mvdan.cc/sh/v3/syntax"
)

// InterpResult is what one Runner.Run produced.
type InterpResult struct {
	Stdout   []byte
	Stderr   []byte
	Status   int
	Err      error // the raw error from Run (nil or exit status or other)
	Fatal    bool  // Run returned an error that is not an exit status
	TimedOut bool
	Panic    string // non-empty if New/Run panicked (recovered)
	ParseErr error
	Runner   *interp.Runner
}

// InterpOpts configures RunInterp.
type InterpOpts struct {
	Dir     string
	Env     []string // name=value pairs; the same list the real shell gets
	Stdin   []byte
	Params  []string
	Timeout time.Duration
	Lang    syntax.LangVariant
	// Extra runner options appended last.
	Extra []interp.RunnerOption
	// KeepRunner leaves the Runner in the result (for state inspection).
	KeepRunner bool
}

// SandboxExec only lets commands run that carry no slash (so they resolve via
// the allowlisted PATH); anything else is "not found".
func SandboxExec(next interp.ExecHandlerFunc) interp.ExecHandlerFunc {
	return func(ctx context.Context, args []string) error {
		if strings.Contains(args[0], "/") {
			hc := interp.HandlerCtx(ctx)
			fmt.Fprintf(hc.Stderr, "%q: not allowed by the verification sandbox\n", args[0])
			return interp.NewExitStatus(126)
		}
		return next(ctx, args)
	}
}

// SandboxOpen refuses to open files for writing outside root.
func SandboxOpen(root string) interp.OpenHandlerFunc {
	def := interp.DefaultOpenHandler()
	return func(ctx context.Context, path string, flag int, perm os.FileMode) (io.ReadWriteCloser, error) {
		if flag&(os.O_WRONLY|os.O_RDWR|os.O_CREATE|os.O_TRUNC|os.O_APPEND) != 0 {
			abs := path
			if !filepath.IsAbs(abs) {
				abs = filepath.Join(interp.HandlerCtx(ctx).Dir, abs)
			}
			abs = filepath.Clean(abs)
			if abs != "/dev/null" && !strings.HasPrefix(abs, "/dev/fd/") && abs != "/dev/stdout" && abs != "/dev/stderr" && !strings.HasPrefix(abs, root+"/") && abs != root {
				return nil, &os.PathError{Op: "open", Path: path, Err: os.ErrPermission}
			}
		}
		return def(ctx, path, flag, perm)
	}
}

// ParseBash parses src with the Bash variant and comments kept.
func ParseBash(src []byte) (*syntax.File, error) {
	return syntax.NewParser(syntax.Variant(syntax.LangBash), syntax.KeepComments(true)).Parse(bytes.NewReader(src), "")
}

// syncBuf is a goroutine-safe byte buffer with a size cap (background jobs may
// write concurrently with the main goroutine).
type syncBuf struct {
	mu  sync.Mutex
	buf bytes.Buffer
	max int
}

func (s *syncBuf) Write(p []byte) (int, error) {
	s.mu.Lock()
	defer s.mu.Unlock()
	if s.buf.Len() < s.max {
		k := len(p)
		if s.buf.Len()+k > s.max {
			k = s.max - s.buf.Len()
		}
		s.buf.Write(p[:k])
	}
	return len(p), nil
}
func (s *syncBuf) Bytes() []byte { s.mu.Lock(); defer s.mu.Unlock(); return append([]byte(nil), s.buf.Bytes()...) }

// RunInterpFile runs an already parsed file.
func RunInterpFile(f *syntax.File, o InterpOpts) (res InterpResult) {
	if o.Timeout == 0 {
		o.Timeout = 20 * time.Second
	}
	out := &syncBuf{max: 16 << 20}
	errb := &syncBuf{max: 1 << 20}
	var stdin io.Reader
	if o.Stdin != nil {
		stdin = bytes.NewReader(o.Stdin)
	}
	opts := []interp.RunnerOption{
		interp.Dir(o.Dir),
		interp.Env(expand.ListEnviron(o.Env...)),
		interp.StdIO(stdin, out, errb),
		interp.ExecHandlers(SandboxExec),
		interp.OpenHandler(SandboxOpen(o.Dir)),
	}
	if o.Params != nil {
		opts = append(opts, interp.Params(append([]string{"--"}, o.Params...)...))
	}
	opts = append(opts, o.Extra...)
	ctx, cancel := context.WithTimeout(context.Background(), o.Timeout)
	defer cancel()
	done := make(chan struct{})
	var r *interp.Runner
	go func() {
		defer close(done)
		defer func() {
			if e := recover(); e != nil {
				res.Panic = fmt.Sprintf("%v\n%s", e, debug.Stack())
			}
		}()
		var err error
		r, err = interp.New(opts...)
		if err != nil {
			res.Err, res.Fatal = err, true
			return
		}
		err = r.Run(ctx, f)
		res.Err = err
		if err != nil {
			if st, ok := interp.IsExitStatus(err); ok {
				res.Status = int(st)
			} else {
				res.Fatal = true
				res.Status = 1
			}
		}
	}()
	select {
	case <-done:
	case <-time.After(o.Timeout + 10*time.Second):
		// Run ignored the cancelled context: the goroutine is leaked; report
		res.TimedOut = true
		res.Stdout, res.Stderr = out.Bytes(), errb.Bytes()
		return res
	}
	if ctx.Err() != nil && res.Err != nil {
		res.TimedOut = true
	}
	res.Stdout, res.Stderr = out.Bytes(), errb.Bytes()
	if o.KeepRunner {
		res.Runner = r
	}
	return res
}

// RunInterp parses src (Bash variant unless o.Lang is set) and runs it.
func RunInterp(src []byte, o InterpOpts) InterpResult {
	lang := o.Lang
	if lang == 0 {
		lang = syntax.LangBash
	}
	f, err := syntax.NewParser(syntax.Variant(lang), syntax.KeepComments(true)).Parse(bytes.NewReader(src), "")
	if err != nil {
		return InterpResult{ParseErr: err}
	}
	return RunInterpFile(f, o)
}
