package oracle

import (
	"bytes"
	"context"
	"fmt"
	"os"
	"os/exec"
	"path/filepath"
	"strconv"
	"sync"
	"syscall"
	"time"
)

// Real-shell runner (oracle D): bash and dash are run with a sealed
// environment, an allowlisted PATH, resource limits and a kill timeout, in a
// scratch directory under .build/work.

var allowTools = []string{"cat", "true", "false", "sort", "head", "tr", "wc", "sleep", "env", "printf", "echo", "test", "basename", "dirname", "seq", "rev", "mkdir", "touch", "ln", "ls", "rmdir"}

var (
	allowOnce sync.Once
	allowDir  string
	allowErr  error
)

// AllowDir returns a directory holding symlinks to the allowlisted tools only.
func AllowDir(build string) (string, error) {
	allowOnce.Do(func() {
		dir := filepath.Join(build, "allow")
		if err := os.MkdirAll(dir, 0o755); err != nil {
			allowErr = err
			return
		}
		for _, t := range allowTools {
			p, err := exec.LookPath(t)
			if err != nil {
				continue
			}
			link := filepath.Join(dir, t)
			if _, err := os.Lstat(link); err == nil {
				continue
			}
			if err := os.Symlink(p, link); err != nil && !os.IsExist(err) {
				allowErr = err
				return
			}
		}
		allowDir = dir
	})
	return allowDir, allowErr
}

// ShellResult is what a real-shell run produced.
type ShellResult struct {
	Stdout   []byte
	Stderr   []byte
	Status   int
	TimedOut bool
	Err      error // failure to run at all
}

// SealedEnv is the environment given to real shells (and, as pairs, to interp).
func SealedEnv(build, home string, extra ...string) []string {
	ad, _ := AllowDir(build)
	env := []string{"PATH=" + ad, "HOME=" + home, "LC_ALL=C.UTF-8", "TZ=UTC", "TMPDIR=" + home}
	return append(env, extra...)
}

// RunShell runs `shell file` (bash gets --norc --noprofile) with cwd dir.
func RunShell(shell string, args []string, script []byte, dir string, env []string, stdin []byte, timeout time.Duration) ShellResult {
	sp, err := exec.LookPath(shell)
	if err != nil {
		return ShellResult{Err: err}
	}
	file := filepath.Join(dir, ".verif-script-"+strconv.Itoa(os.Getpid())+"-"+strconv.FormatInt(time.Now().UnixNano(), 36))
	if err := os.WriteFile(file, script, 0o600); err != nil {
		return ShellResult{Err: err}
	}
	defer os.Remove(file)
	var a []string
	if shell == "bash" {
		a = append(a, "--norc", "--noprofile")
	}
	a = append(a, args...)
	a = append(a, file)
	// prlimit: cpu seconds, file size, address space
	pa := append([]string{"--cpu=20", "--fsize=33554432", "--nproc=4096", "--", sp}, a...)
	ctx, cancel := context.WithTimeout(context.Background(), timeout)
	defer cancel()
	cmd := exec.CommandContext(ctx, "prlimit", pa...)
	cmd.Dir = dir
	cmd.Env = env
	cmd.SysProcAttr = &syscall.SysProcAttr{Setpgid: true}
	cmd.Cancel = func() error { return syscall.Kill(-cmd.Process.Pid, syscall.SIGKILL) }
	cmd.WaitDelay = 2 * time.Second
	if stdin != nil {
		cmd.Stdin = bytes.NewReader(stdin)
	}
	var out, errb bytes.Buffer
	cmd.Stdout = &limitedWriter{w: &out, n: 16 << 20}
	cmd.Stderr = &limitedWriter{w: &errb, n: 1 << 20}
	err = cmd.Run()
	res := ShellResult{Stdout: out.Bytes(), Stderr: errb.Bytes()}
	if ctx.Err() != nil {
		res.TimedOut = true
		return res
	}
	if err != nil {
		if ee, ok := err.(*exec.ExitError); ok {
			res.Status = ee.ExitCode()
			if res.Status < 0 {
				if ws, ok := ee.Sys().(syscall.WaitStatus); ok && ws.Signaled() {
					res.Status = 128 + int(ws.Signal())
				}
			}
			return res
		}
		res.Err = err
	}
	return res
}

type limitedWriter struct {
	w *bytes.Buffer
	n int
}

func (l *limitedWriter) Write(p []byte) (int, error) {
	if l.w.Len() < l.n {
		k := len(p)
		if l.w.Len()+k > l.n {
			k = l.n - l.w.Len()
		}
		l.w.Write(p[:k])
	}
	return len(p), nil
}

// ScratchDir creates a fresh scratch directory under build/work.
func ScratchDir(build, prefix string) (string, error) {
	base := filepath.Join(build, "work")
	if err := os.MkdirAll(base, 0o755); err != nil {
		return "", err
	}
	return os.MkdirTemp(base, prefix+"-")
}

// Framed batches: each case is run in its own subshell and followed by a
// frame marker carrying its index and exit status.
const frameOpen, frameClose = "\x01", "\x02"

// FramedScript builds a script running each snippet as `( snippet ) 2>/dev/null`
// followed by a frame `\001<index>:<status>\002\n`. prelude is emitted once.
func FramedScript(prelude string, snippets []string) []byte {
	var b bytes.Buffer
	b.WriteString(prelude)
	b.WriteString("\n")
	for i, s := range snippets {
		fmt.Fprintf(&b, "(\n%s\n) 2>/dev/null\nprintf '\\001%%s:%%d\\002\\n' %d $?\n", s, i)
	}
	return b.Bytes()
}

// FramedScriptFlat is FramedScript without the per-case subshell: a fork costs
// several milliseconds on this machine (and far more with 14 workers forking at
// once), so cases that cannot exit, change state that matters or fail to parse
// are run directly in the batch shell.
func FramedScriptFlat(prelude string, snippets []string) []byte {
	var b bytes.Buffer
	b.WriteString(prelude)
	b.WriteString("\n")
	for i, s := range snippets {
		fmt.Fprintf(&b, "%s\nprintf '\\001%%s:%%d\\002\\n' %d $?\n", s, i)
	}
	return b.Bytes()
}

// Frame is one case's output and status.
type Frame struct {
	Out    []byte
	Status int
	OK     bool
}

// ParseFrames splits the output of a FramedScript run into n frames.
func ParseFrames(out []byte, n int) []Frame {
	frames := make([]Frame, n)
	rest := out
	for i := 0; i < n; i++ {
		marker := []byte(frameOpen + strconv.Itoa(i) + ":")
		j := bytes.Index(rest, marker)
		if j < 0 {
			break
		}
		body := rest[:j]
		rest = rest[j+len(marker):]
		k := bytes.Index(rest, []byte(frameClose+"\n"))
		if k < 0 {
			break
		}
		st, err := strconv.Atoi(string(rest[:k]))
		if err != nil {
			break
		}
		rest = rest[k+2:]
		frames[i] = Frame{Out: body, Status: st, OK: true}
	}
	return frames
}
