// Package oracle holds the deterministic oracles shared by the monitors: the
// tree normaliser, the real-shell runners and the reference models.
package oracle

import (
	"fmt"
	"reflect"
	"sort"
	"strings"

	"mvdan.cc/sh/v3/syntax"
)

// CanonOpts selects what the canonical dump of a tree keeps.
type CanonOpts struct {
	Pos      bool // keep positions
	Comments bool // keep comments
	// Cosmetic applies exactly the rewrites property C01 lists as cosmetic:
	// back-quotes -> $( ), $[ ] -> $(( )), brace-style for -> do/done,
	// escaped newlines (adjacent literals merged, empty ones dropped),
	// <<- tab indentation, a doubled trailing backslash.
	Cosmetic bool
	// Minify additionally equalises ${x} and $x for "simple" expansions.
	Minify bool
	// IgnoreCaseBraces equalises mksh's "case x { ... }" and "case x in ... esac"
	// (only used by the difference predicate of a known finding).
	IgnoreCaseBraces bool
	// IgnoreLastCaseOp drops the operator of the last item of every case clause
	// (only used by the difference predicate of a known finding).
	IgnoreLastCaseOp bool
	// RecoveredAsUnset prints recovered positions as unset ones (C15).
	RecoveredAsUnset bool
}

var (
	posType      = reflect.TypeOf(syntax.Pos{})
	commentType  = reflect.TypeOf(syntax.Comment{})
	commentsType = reflect.TypeOf([]syntax.Comment(nil))
	wordPartType = reflect.TypeOf((*syntax.WordPart)(nil)).Elem()
	partsType    = reflect.TypeOf([]syntax.WordPart(nil))
)

type canon struct {
	o CanonOpts
	b strings.Builder
}

// Canon returns the canonical dump of a node.
func Canon(n syntax.Node, o CanonOpts) string {
	c := &canon{o: o}
	if n == nil {
		return "nil"
	}
	c.value(reflect.ValueOf(n), false)
	return c.b.String()
}

func (c *canon) pos(p syntax.Pos) {
	if !p.IsValid() {
		c.b.WriteString("-")
		return
	}
	if p.IsRecovered() {
		if c.o.RecoveredAsUnset {
			c.b.WriteString("-")
		} else {
			c.b.WriteString("R")
		}
		return
	}
	fmt.Fprintf(&c.b, "%d:%d:%d", p.Offset(), p.Line(), p.Col())
}

func (c *canon) value(v reflect.Value, dashHdoc bool) {
	switch v.Kind() {
	case reflect.Interface, reflect.Pointer:
		if v.IsNil() {
			c.b.WriteString("nil")
			return
		}
		if v.Kind() == reflect.Pointer && v.Elem().Kind() == reflect.Struct {
			c.strct(v.Elem(), dashHdoc)
			return
		}
		c.value(v.Elem(), dashHdoc)
	case reflect.Struct:
		c.strct(v, dashHdoc)
	case reflect.Slice:
		if v.Type() == partsType && c.o.Cosmetic {
			c.parts(v, dashHdoc)
			return
		}
		c.b.WriteString("[")
		for i := 0; i < v.Len(); i++ {
			if i > 0 {
				c.b.WriteString(",")
			}
			if c.o.IgnoreLastCaseOp && i == v.Len()-1 {
				if ci, ok := v.Index(i).Interface().(*syntax.CaseItem); ok && ci != nil {
					cp := *ci
					cp.Op = syntax.Break
					c.value(reflect.ValueOf(&cp), false)
					continue
				}
			}
			c.value(v.Index(i), false)
		}
		c.b.WriteString("]")
	case reflect.String:
		fmt.Fprintf(&c.b, "%q", v.String())
	case reflect.Bool:
		if v.Bool() {
			c.b.WriteString("T")
		} else {
			c.b.WriteString("F")
		}
	case reflect.Int, reflect.Int8, reflect.Int16, reflect.Int32, reflect.Int64:
		fmt.Fprintf(&c.b, "%d", v.Int())
	case reflect.Uint, reflect.Uint8, reflect.Uint16, reflect.Uint32, reflect.Uint64:
		fmt.Fprintf(&c.b, "%d", v.Uint())
	default:
		fmt.Fprintf(&c.b, "?%s", v.Kind())
	}
}

func (c *canon) strct(v reflect.Value, dashHdoc bool) {
	t := v.Type()
	if t == posType {
		c.pos(v.Interface().(syntax.Pos))
		return
	}
	c.b.WriteString(t.Name())
	c.b.WriteString("{")
	var simpleParam bool
	if c.o.Cosmetic && c.o.Minify && t.Name() == "ParamExp" {
		pe := v.Addr().Interface().(*syntax.ParamExp)
		simpleParam = paramSimple(pe)
	}
	isDash := false
	if t.Name() == "Redirect" {
		op := v.FieldByName("Op").Interface().(syntax.RedirOperator)
		isDash = op == syntax.DashHdoc
	}
	first := true
	for i := 0; i < t.NumField(); i++ {
		f := t.Field(i)
		if !f.IsExported() {
			continue
		}
		if f.Type == posType && !c.o.Pos {
			continue
		}
		if (f.Type == commentsType || f.Type == commentType) && !c.o.Comments {
			continue
		}
		fv := v.Field(i)
		if !first {
			c.b.WriteString(" ")
		}
		first = false
		c.b.WriteString(f.Name)
		c.b.WriteString(":")
		if c.o.Cosmetic {
			switch {
			case t.Name() == "CmdSubst" && f.Name == "Backquotes",
				t.Name() == "ArithmExp" && f.Name == "Bracket",
				t.Name() == "ForClause" && f.Name == "Braces",
				t.Name() == "CaseClause" && f.Name == "Braces" && c.o.IgnoreCaseBraces:
				c.b.WriteString("F")
				continue
			case t.Name() == "ParamExp" && f.Name == "Short" && simpleParam:
				c.b.WriteString("*")
				continue
			case t.Name() == "Redirect" && f.Name == "Hdoc":
				c.hdoc(fv, isDash)
				continue
			}
		}
		c.value(fv, false)
	}
	c.b.WriteString("}")
}

func paramSimple(p *syntax.ParamExp) bool {
	return p.Param != nil && p.Flags == nil &&
		!p.Excl && !p.Length && !p.Width && !p.IsSet &&
		p.Split == syntax.OptUnset && p.GlobSubst == syntax.OptUnset && p.RcExpand == syntax.OptUnset &&
		p.NestedParam == nil && p.Index == nil &&
		len(p.Modifiers) == 0 && p.Slice == nil &&
		p.Repl == nil && p.Names == 0 && p.Exp == nil
}

// hdoc dumps a here-document body: a body without any non-empty part equals nil.
func (c *canon) hdoc(v reflect.Value, dash bool) {
	if v.IsNil() {
		c.b.WriteString("nil")
		return
	}
	w := v.Interface().(*syntax.Word)
	parts := c.normParts(w.Parts, dash)
	if len(parts) == 0 {
		c.b.WriteString("nil")
		return
	}
	c.b.WriteString("Word{Parts:")
	c.dumpParts(parts, dash)
	c.b.WriteString("}")
}

func (c *canon) parts(v reflect.Value, dash bool) {
	ps := v.Interface().([]syntax.WordPart)
	c.dumpParts(c.normParts(ps, dash), dash)
}

func (c *canon) dumpParts(ps []syntax.WordPart, dash bool) {
	c.b.WriteString("[")
	for i, p := range ps {
		if i > 0 {
			c.b.WriteString(",")
		}
		// nested double quotes inside a <<- body keep the tab rule
		c.value(reflect.ValueOf(p), dash)
	}
	c.b.WriteString("]")
}

// normParts merges adjacent literals, applies the literal-level cosmetic
// rewrites and drops literals that end up empty.
func (c *canon) normParts(ps []syntax.WordPart, dash bool) []syntax.WordPart {
	var out []syntax.WordPart
	for _, p := range ps {
		l, ok := p.(*syntax.Lit)
		if !ok {
			out = append(out, p)
			continue
		}
		if n := len(out); n > 0 {
			if prev, ok := out[n-1].(*syntax.Lit); ok {
				out[n-1] = &syntax.Lit{Value: prev.Value + l.Value}
				continue
			}
		}
		out = append(out, &syntax.Lit{Value: l.Value})
	}
	res := out[:0]
	for i, p := range out {
		l, ok := p.(*syntax.Lit)
		if !ok {
			res = append(res, p)
			continue
		}
		v := l.Value
		v = strings.ReplaceAll(v, "\\\n", "")
		if dash {
			for strings.Contains(v, "\n\t") {
				v = strings.ReplaceAll(v, "\n\t", "\n")
			}
			if i == 0 {
				v = strings.TrimLeft(v, "\t")
			}
		}
		// a doubled trailing backslash: round an odd trailing run up
		if n := len(v) - len(strings.TrimRight(v, `\`)); n%2 == 1 && i == len(out)-1 {
			v += `\`
		}
		if v == "" {
			continue
		}
		res = append(res, &syntax.Lit{Value: v})
	}
	return res
}

// FirstDiff returns a short excerpt around the first difference of two dumps.
func FirstDiff(a, b string) string {
	i := 0
	for i < len(a) && i < len(b) && a[i] == b[i] {
		i++
	}
	lo := i - 80
	if lo < 0 {
		lo = 0
	}
	ex := func(s string) string {
		hi := i + 120
		if hi > len(s) {
			hi = len(s)
		}
		if lo > len(s) {
			return ""
		}
		return s[lo:hi]
	}
	return fmt.Sprintf("at %d:\n  A: …%s…\n  B: …%s…", i, ex(a), ex(b))
}

// Comments returns every Comment anywhere in the tree (found by reflection,
// independently of syntax.Walk), ordered by offset.
func Comments(n syntax.Node) []syntax.Comment {
	var out []syntax.Comment
	var rec func(v reflect.Value)
	rec = func(v reflect.Value) {
		switch v.Kind() {
		case reflect.Interface, reflect.Pointer:
			if !v.IsNil() {
				rec(v.Elem())
			}
		case reflect.Struct:
			if v.Type() == commentType {
				out = append(out, v.Interface().(syntax.Comment))
				return
			}
			if v.Type() == posType {
				return
			}
			for i := 0; i < v.NumField(); i++ {
				if v.Type().Field(i).IsExported() {
					rec(v.Field(i))
				}
			}
		case reflect.Slice:
			for i := 0; i < v.Len(); i++ {
				rec(v.Index(i))
			}
		}
	}
	rec(reflect.ValueOf(n))
	sort.SliceStable(out, func(i, j int) bool { return out[i].Hash.Offset() < out[j].Hash.Offset() })
	return out
}
