package props

import (
	"bytes"
	"encoding/json"
	"fmt"
	"math/rand/v2"
	"regexp"
	"strings"

	"mvdan.cc/sh/v3/syntax"
	"mvdan.cc/sh/v3/syntax/typedjson"
	"verif/mon"
	"verif/oracle"
)

// C15: typed JSON round-trips syntax trees.
type c15 struct{ base }

func init() { mon.Register(&c15{}) }

func (*c15) ID() string { return "C15" }
func (*c15) Rule() string {
	return "trees parsed from the corpus, the grammar generator (all variants) and mutants, with KeepComments, a third of them with RecoverErrors on possibly invalid input; encoded as root *File and with a random sub-node as root; the decoded tree must equal the original in every field and position (recovered positions becoming unset, nil and empty slices alike) and re-encode to identical bytes; then 12 hostile documents derived from the encoding (retyped values, renamed/duplicated/reordered keys, swapped Type names, huge/negative/fractional numbers, deep nesting, truncation) plus random JSON are fed to Decode, which must not panic. Non-trivial: >= 5 nodes; distinct: hash of (source, variant, root choice)."
}
func (*c15) NumCases(tier string) int               { return tierN(tier, 4000, 80000) }
func (*c15) MinNontrivial(tier string) int          { return tierN(tier, 1500, 30000) }
func (*c15) New() any                               { return &SynCase{} }
func (*c15) Shrink(p any, still func(any) bool) any { return shrinkSyn(p, still) }
func (*c15) Assumptions() []string {
	return []string{"equality is judged by the reflection dump with every field and position kept", "a panic inside Decode is reported by the harness's recover() as a violation"}
}

func (p *c15) Gen(i int, r *rand.Rand) any {
	mode := synMustParse
	if i%3 == 0 {
		mode = synAny
	}
	c := p.synInputX(r, mode, false, true, true)
	if c == nil {
		return nil
	}
	c.Extra = int(r.Uint32() >> 1)
	if mode == synAny {
		c.Source += "+recover"
	}
	return c
}

var fullCanon = oracle.CanonOpts{Pos: true, Comments: true, RecoveredAsUnset: true}

var derivedPosRe = regexp.MustCompile(`"(Pos|End)":\{"Offset":[0-9]+,"Line":[0-9]+,"Col":[0-9]+\},?`)
var numRe = regexp.MustCompile(`[0-9]+`)
var typeRe = regexp.MustCompile(`"Type":"[A-Za-z]+"`)

var typeNames = []string{"File", "Stmt", "CallExpr", "Word", "Lit", "SglQuoted", "DblQuoted", "ParamExp", "CmdSubst", "ArithmExp", "BinaryCmd", "IfClause", "Block", "Subshell", "Redirect", "Assign", "Comment", "BinaryArithm", "UnaryArithm", "ParenArithm", "TestClause", "BinaryTest", "CaseClause", "CaseItem", "ForClause", "WordIter", "CStyleLoop", "FuncDecl", "ArrayExpr", "ArrayElem", "ExtGlob", "ProcSubst", "DeclClause", "LetClause", "TimeClause", "CoprocClause", "TestDecl", "BraceExp", "Pos", "Nope", ""}

func hostileDocs(r *rand.Rand, enc []byte) [][]byte {
	var out [][]byte
	add := func(b []byte) { out = append(out, b) }
	// truncations
	if len(enc) > 2 {
		add(enc[:r.IntN(len(enc))])
	}
	// numbers
	for _, repl := range []string{"-1", "1.5", "1e999", "99999999999999999999999", "\"3\"", "null", "true", "[1]", "{}"} {
		locs := numRe.FindAllIndex(enc, -1)
		if len(locs) == 0 {
			break
		}
		l := locs[r.IntN(len(locs))]
		add(append(append(append([]byte{}, enc[:l[0]]...), repl...), enc[l[1]:]...))
	}
	// swapped type names
	for k := 0; k < 3; k++ {
		locs := typeRe.FindAllIndex(enc, -1)
		if len(locs) == 0 {
			break
		}
		l := locs[r.IntN(len(locs))]
		add(append(append(append([]byte{}, enc[:l[0]]...), fmt.Sprintf(`"Type":%q`, typeNames[r.IntN(len(typeNames))])...), enc[l[1]:]...))
	}
	// generic re-marshal: keys sorted (Type no longer first), values retyped
	var v any
	if json.Unmarshal(enc, &v) == nil {
		var mutate func(x any, depth int) any
		mutate = func(x any, depth int) any {
			switch t := x.(type) {
			case map[string]any:
				m := map[string]any{}
				for k, e := range t {
					switch r.IntN(14) {
					case 0:
						continue // drop key
					case 1:
						m[k+"X"] = e // rename
						continue
					case 2:
						m[k] = []any{e} // wrap
						continue
					case 3:
						m[k] = "str"
						continue
					case 4:
						m[k] = nil
						continue
					case 5:
						m[k] = map[string]any{"Type": typeNames[r.IntN(len(typeNames))]}
						continue
					}
					m[k] = mutate(e, depth+1)
				}
				return m
			case []any:
				var l []any
				for _, e := range t {
					l = append(l, mutate(e, depth+1))
					if r.IntN(10) == 0 {
						l = append(l, e)
					}
				}
				return l
			}
			return x
		}
		for k := 0; k < 3; k++ {
			if b, err := json.Marshal(mutate(v, 0)); err == nil {
				add(b)
			}
		}
	}
	// deep nesting
	d := 2000 + r.IntN(8000)
	add([]byte(strings.Repeat(`{"Type":"Stmt","Cmd":`, d) + `null` + strings.Repeat("}", d)))
	add([]byte(strings.Repeat(`[`, d) + strings.Repeat("]", d)))
	// assorted
	add([]byte(`{"Type":"File","Stmts":[{"Cmd":{"Type":"CallExpr","Args":[{"Parts":[{"Type":"Lit","Value":5}]}]}}]}`))
	add([]byte(`{"Type":"Lit","ValuePos":{"Offset":-5,"Line":1e30,"Col":0.5}}`))
	add([]byte(`{"Type":"File","Stmts":{"0":1}}`))
	add([]byte(`"Type"`))
	add([]byte(`{"Type":123}`))
	add([]byte(`{"type":"File"}`))
	add([]byte(`{"Stmts":[],"Type":"File"}`))
	return out
}

func (p *c15) Run(payload any) mon.Result {
	c := payload.(*SynCase)
	var res mon.Result
	lang := c.lang()
	r := rand.New(rand.NewPCG(uint64(c.Extra), 15))
	opts := []syntax.ParserOption{syntax.Variant(lang), syntax.KeepComments(true)}
	recoverMode := strings.HasSuffix(c.Source, "+recover")
	if recoverMode {
		opts = append(opts, syntax.RecoverErrors(5))
	}
	f, err := syntax.NewParser(opts...).Parse(bytes.NewReader(c.Src), "")
	if err != nil {
		return mon.Result{Verdict: mon.OutOfDomain, Reason: "does-not-parse"}
	}
	fail := func(reason, msg string) mon.Result {
		res.Fail(reason, fmt.Sprintf("lang=%s recover=%v src=%s\n%s", c.Lang, recoverMode, c.SrcQ, msg))
		return res
	}
	// roots: the file and one random sub-node
	roots := []syntax.Node{f}
	var all []syntax.Node
	reflectWalk(f, func(n syntax.Node) bool {
		if n != nil {
			if _, isC := n.(*syntax.Comment); !isC {
				all = append(all, n)
			}
		}
		return true
	})
	if len(all) > 1 {
		roots = append(roots, all[1+r.IntN(len(all)-1)])
	}
	res.Evals = 0
	var firstEnc []byte
	for _, root := range roots {
		res.Evals++
		var b1 bytes.Buffer
		if err := typedjson.Encode(&b1, root); err != nil {
			return fail("encode-error", fmt.Sprintf("root %T: %v", root, err))
		}
		if firstEnc == nil {
			firstEnc = b1.Bytes()
		}
		n2, err := typedjson.Decode(bytes.NewReader(b1.Bytes()))
		if err != nil {
			return fail("decode-error", fmt.Sprintf("root %T: %v\njson=%s", root, err, truncStr(b1.String(), 400)))
		}
		if a, b := oracle.Canon(root, fullCanon), oracle.Canon(n2, fullCanon); a != b {
			return fail("decoded-tree-differs", fmt.Sprintf("root %T\n%s", root, oracle.FirstDiff(a, b)))
		}
		var b2 bytes.Buffer
		if err := typedjson.Encode(&b2, n2); err != nil {
			return fail("re-encode-error", fmt.Sprintf("root %T: %v", root, err))
		}
		if !bytes.Equal(b1.Bytes(), b2.Bytes()) && hasRecoveredPos(root) && p.env.Findings.Active("C15-recovered-derived-end") {
			// difference predicate: only derived "Pos"/"End" objects differ, and the tree has recovered positions
			strip := func(b []byte) []byte { return derivedPosRe.ReplaceAll(b, nil) }
			if bytes.Equal(strip(b1.Bytes()), strip(b2.Bytes())) {
				res.Verdict, res.Reason = mon.Known, "C15-recovered-derived-end"
				res.Count("known:C15-recovered-derived-end", 1)
				continue
			}
		}
		if !bytes.Equal(b1.Bytes(), b2.Bytes()) {
			return fail("re-encoding-differs", fmt.Sprintf("root %T\n%s", root, oracle.FirstDiff(b1.String(), b2.String())))
		}
		res.Count(fmt.Sprintf("root:%T", root), 1)
	}
	if recoverMode && hasRecoveredPos(f) {
		res.Count("trees_with_recovered_positions", 1)
	}
	// hostile documents: Decode must not panic (recover() in the harness reports it)
	for _, doc := range hostileDocs(r, firstEnc) {
		res.Evals++
		n, err := typedjson.Decode(bytes.NewReader(doc))
		if err == nil && n != nil {
			res.Count("hostile_docs_accepted", 1)
		} else {
			res.Count("hostile_docs_rejected", 1)
		}
	}
	res.Hash = mon.HashOf(c.Src, c.Lang, c.Extra%64)
	res.Nontriv = len(all) >= 5
	res.Count("lang:"+c.Lang, 1)
	res.Sample = map[string]any{"src": truncStr(c.SrcQ, 160), "lang": c.Lang, "nodes": len(all), "json_bytes": len(firstEnc)}
	return res
}
