package props

import (
	"fmt"
	"math/rand/v2"
	"reflect"

	"mvdan.cc/sh/v3/syntax"
	"verif/mon"
)

// C14: Walk and Preorder visit every node exactly once.
type c14 struct{ base }

func init() { mon.Register(&c14{}) }

func (*c14) ID() string { return "C14" }
func (*c14) Rule() string {
	return "trees parsed (KeepComments on) from the corpus, the grammar generator in all variants (zsh/mksh-only fields included) and mutants; a reflection enumerator lists every syntax.Node reachable through exported fields (pointers, interfaces, slices, []Comment elements, nodes nested in the non-node structs Slice/Replace/Expansion); Walk must visit exactly that multiset once each, parent before child, with exactly one properly nested nil callback per entered node; pruning at every node k (sampled above 150 nodes) must remove exactly k's descendants; Preorder must equal Walk's non-nil sequence and stop after i items for every i (sampled). Non-trivial: >= 8 nodes; distinct: hash of (source, variant)."
}
func (*c14) NumCases(tier string) int               { return tierN(tier, 3000, 60000) }
func (*c14) MinNontrivial(tier string) int          { return tierN(tier, 1500, 30000) }
func (*c14) New() any                               { return &SynCase{} }
func (*c14) Shrink(p any, still func(any) bool) any { return shrinkSyn(p, still) }
func (*c14) Assumptions() []string {
	return []string{"order among siblings is not demanded beyond parent-before-child", "comments are handed out by Walk as pointers to copies, so they are matched by (position, text)"}
}

func (p *c14) Gen(i int, r *rand.Rand) any {
	c := p.synInputX(r, synMustParse, false, true, true)
	if c == nil {
		return nil
	}
	c.Extra = int(r.Uint32() >> 1)
	return c
}

type nodeKey struct {
	ptr  uintptr
	typ  reflect.Type
	off  uint
	text string
}

func keyOf(n syntax.Node) nodeKey {
	if c, ok := n.(*syntax.Comment); ok {
		return nodeKey{typ: reflect.TypeOf(c), off: c.Hash.Offset(), text: c.Text}
	}
	v := reflect.ValueOf(n)
	return nodeKey{ptr: v.Pointer(), typ: v.Type()}
}

// enumerate lists nodes reachable through exported fields, each with its parent key.
type enumNode struct {
	key, parent nodeKey
	node        syntax.Node
}

func enumerate(root syntax.Node) []enumNode {
	var out []enumNode
	var visitNode func(n syntax.Node, parent nodeKey)
	var visitValue func(v reflect.Value, parent nodeKey)
	visitNode = func(n syntax.Node, parent nodeKey) {
		k := keyOf(n)
		out = append(out, enumNode{k, parent, n})
		v := reflect.ValueOf(n)
		if v.Kind() == reflect.Pointer {
			v = v.Elem()
		}
		if v.Kind() != reflect.Struct {
			return
		}
		for i := 0; i < v.NumField(); i++ {
			if v.Type().Field(i).IsExported() {
				visitValue(v.Field(i), k)
			}
		}
	}
	visitValue = func(v reflect.Value, parent nodeKey) {
		switch v.Kind() {
		case reflect.Interface:
			if v.IsNil() {
				return
			}
			if n, ok := v.Interface().(syntax.Node); ok {
				visitNode(n, parent)
			}
		case reflect.Pointer:
			if v.IsNil() {
				return
			}
			if n, ok := v.Interface().(syntax.Node); ok {
				visitNode(n, parent)
				return
			}
			// a pointer to a non-node struct (Slice, Replace, Expansion): look inside
			if v.Elem().Kind() == reflect.Struct && v.Elem().Type() != posType0 {
				for i := 0; i < v.Elem().NumField(); i++ {
					if v.Elem().Type().Field(i).IsExported() {
						visitValue(v.Elem().Field(i), parent)
					}
				}
			}
		case reflect.Slice:
			for i := 0; i < v.Len(); i++ {
				e := v.Index(i)
				if e.Kind() == reflect.Struct && e.Type() == reflect.TypeOf(syntax.Comment{}) {
					c := e.Interface().(syntax.Comment)
					visitNode(&c, parent)
					continue
				}
				visitValue(e, parent)
			}
		}
	}
	visitNode(root, nodeKey{})
	return out
}

func (p *c14) Run(payload any) mon.Result {
	c := payload.(*SynCase)
	var res mon.Result
	f, err := parseAs(c.Src, c.lang(), true)
	if err != nil {
		return mon.Result{Verdict: mon.OutOfDomain, Reason: "does-not-parse"}
	}
	fail := func(reason, msg string) mon.Result {
		res.Fail(reason, fmt.Sprintf("lang=%s src=%s\n%s", c.Lang, c.SrcQ, msg))
		return res
	}
	want := enumerate(f)
	wantCount := map[nodeKey]int{}
	parentOf := map[nodeKey]nodeKey{}
	for _, e := range want {
		wantCount[e.key]++
		parentOf[e.key] = e.parent
	}
	// full walk
	gotCount := map[nodeKey]int{}
	var seq []nodeKey
	var stack []nodeKey
	nilErr := ""
	seen := map[nodeKey]bool{}
	syntax.Walk(f, func(n syntax.Node) bool {
		if n == nil {
			if len(stack) == 0 {
				nilErr = "nil callback without an open node"
			} else {
				stack = stack[:len(stack)-1]
			}
			return true
		}
		k := keyOf(n)
		gotCount[k]++
		seq = append(seq, k)
		if par, ok := parentOf[k]; ok && par != (nodeKey{}) && !seen[par] {
			nilErr = fmt.Sprintf("%T visited before its parent", n)
		}
		seen[k] = true
		stack = append(stack, k)
		return true
	})
	res.Evals = 1
	if nilErr != "" {
		return fail("walk-protocol", nilErr)
	}
	if len(stack) != 0 {
		return fail("walk-protocol", fmt.Sprintf("%d nodes were entered without a closing nil callback", len(stack)))
	}
	for _, e := range want {
		if gotCount[e.key] != wantCount[e.key] {
			if p.knownUnvisited(e.node) {
				res.Verdict, res.Reason = mon.Known, "C14-unvisited-fields"
				res.Count("known:C14-unvisited-fields", 1)
				continue
			}
			return fail("walk-misses-or-repeats-node", fmt.Sprintf("%T at %v: reachable %d time(s) through exported fields, visited %d time(s)", e.node, e.node.Pos(), wantCount[e.key], gotCount[e.key]))
		}
	}
	for k, n := range gotCount {
		if wantCount[k] == 0 {
			return fail("walk-visits-unreachable-node", fmt.Sprintf("a %v visited %d time(s) is not reachable through exported fields", k.typ, n))
		}
	}
	res.Count("nodes_walked", len(seq))
	// Preorder
	i := 0
	for n := range syntax.Preorder(f) {
		if i >= len(seq) || keyOf(n) != seq[i] {
			return fail("preorder-differs-from-walk", fmt.Sprintf("item %d of Preorder is %T, Walk has %v", i, n, seq[min(i, len(seq)-1)].typ))
		}
		i++
	}
	if i != len(seq) {
		return fail("preorder-differs-from-walk", fmt.Sprintf("Preorder yielded %d items, Walk visited %d", i, len(seq)))
	}
	r := rand.New(rand.NewPCG(uint64(c.Extra), 14))
	// early termination
	stops := []int{}
	if len(seq) <= 150 {
		for k := 1; k <= len(seq); k++ {
			stops = append(stops, k)
		}
	} else {
		for k := 0; k < 40; k++ {
			stops = append(stops, 1+r.IntN(len(seq)))
		}
	}
	for _, k := range stops {
		got := 0
		for range syntax.Preorder(f) {
			got++
			if got == k {
				break
			}
		}
		res.Evals++
		if got != k {
			return fail("preorder-early-stop", fmt.Sprintf("stopping after %d items yielded %d", k, got))
		}
	}
	// pruning
	descendants := func(k nodeKey) map[nodeKey]bool {
		d := map[nodeKey]bool{}
		for _, e := range want {
			for a := e.parent; a != (nodeKey{}); a = parentOf[a] {
				if a == k {
					d[e.key] = true
					break
				}
			}
		}
		return d
	}
	for _, at := range stops {
		target := seq[at-1]
		if wantCount[target] != 1 {
			continue // identical comments cannot be told apart
		}
		desc := descendants(target)
		var pruned []nodeKey
		depth, bad := 0, ""
		idx := 0
		syntax.Walk(f, func(n syntax.Node) bool {
			if n == nil {
				depth--
				if depth < 0 {
					bad = "unbalanced nil callbacks when pruning"
				}
				return true
			}
			idx++
			k := keyOf(n)
			pruned = append(pruned, k)
			if k == target {
				return false
			}
			depth++
			return true
		})
		res.Evals++
		if bad != "" || depth != 0 {
			return fail("prune-protocol", fmt.Sprintf("pruning at node %d (%v): %s depth=%d", at, target.typ, bad, depth))
		}
		wantLen := 0
		for _, k := range seq {
			if !desc[k] {
				wantLen++
			}
		}
		if p.env.Findings.Active("C14-unvisited-fields") {
			// unvisited nodes are in neither sequence; nothing to adjust
		}
		if len(pruned) != wantLen {
			return fail("prune-wrong-set", fmt.Sprintf("pruning at node %d (%v) visited %d nodes, want %d (all but its %d descendants)", at, target.typ, len(pruned), wantLen, len(desc)))
		}
		for _, k := range pruned {
			if desc[k] {
				return fail("prune-wrong-set", fmt.Sprintf("pruning at node %d (%v) still visited a descendant %v", at, target.typ, k.typ))
			}
		}
	}
	res.Hash = mon.HashOf(c.Src, c.Lang)
	res.Nontriv = len(seq) >= 8
	res.Count("lang:"+c.Lang, 1)
	res.Count("prune_and_stop_points", len(stops))
	kinds := map[string]int{}
	for _, e := range want {
		kinds[fmt.Sprintf("%T", e.node)]++
	}
	for k := range kinds {
		res.Count("node:"+k, 1)
	}
	res.Sample = map[string]any{"src": truncStr(c.SrcQ, 160), "lang": c.Lang, "nodes": len(seq)}
	return res
}

func (p *c14) knownUnvisited(n syntax.Node) bool { return false }
