package props

import (
	"fmt"
	"math/rand/v2"
	"regexp"
	"sort"
	"strings"
	"time"

	"mvdan.cc/sh/v3/expand"
	"verif/mon"
)

// C23: read splits lines like bash.
type c23 struct{ base }

func init() { mon.Register(&c23{}) }

func (*c23) ID() string { return "C23" }
func (*c23) Rule() string {
	return "input lines with backslashes at every position (escaping IFS characters, escaping the newline = continuation over 2-3 physical lines, trailing), IFS whitespace and non-whitespace at the start, middle and end, doubled, with and without a final newline; IFS from {unset, default, empty, ':', ': ', ' :', ',;', 'x'}; 0-4 variable names or -a array; -r on and off. The input is written to a file, read by the read builtin in bash 5.2 and in interp (batched, differences confirmed alone), and the status, every named variable, REPLY and the array are printed. For single physical lines the same split is also asked of expand.ReadFields through the Go API and compared with what interp assigned. Non-trivial: the batch ran; distinct: hash of the batch."
}
func (*c23) NumCases(tier string) int      { return tierN(tier, 100, 2500) }
func (*c23) MinNontrivial(tier string) int { return tierN(tier, 60, 1500) }
func (*c23) New() any                      { return &SnipBatch{} }
func (*c23) CaseTimeout() time.Duration    { return 300 * time.Second }
func (*c23) Assumptions() []string {
	return []string{"bash 5.2.15 is ground truth", "multi-byte IFS characters are not generated (see C22)"}
}

var c23Carves = map[string][][]string{}

var endsEscapedWS = regexp.MustCompile(`\\\\[ \t][ \t]*(\\\\)?\n?$`)

func (p *c23) Gen(i int, r *rand.Rand) any {
	b := &SnipBatch{}
	ifss := []ifsChoice{ifsChoices[0], ifsChoices[2], ifsChoices[1], ifsChoices[3], ifsChoices[4], ifsChoices[5], ifsChoices[6], ifsChoices[8]}
	for k := 0; k < 120; k++ {
		ifs := ifss[r.IntN(len(ifss))]
		tags := map[string]bool{"ifs:" + ifs.name: true}
		if ifs.nows {
			tags["ifs-has-non-whitespace"] = true
		}
		seps := []rune(ifs.val)
		if len(seps) == 0 {
			seps = []rune{' ', ':'}
		}
		var line strings.Builder
		for n := r.IntN(8); n > 0; n-- {
			switch r.IntN(9) {
			case 0, 1, 2:
				line.WriteString([]string{"a", "bc", "d", "e", "fg", "*", "1"}[r.IntN(7)])
			case 3:
				line.WriteRune(seps[r.IntN(len(seps))])
			case 4:
				line.WriteRune(seps[r.IntN(len(seps))])
				line.WriteRune(seps[r.IntN(len(seps))])
				tags["adjacent-separators"] = true
			case 5:
				line.WriteString(`\`)
				line.WriteRune(seps[r.IntN(len(seps))])
				tags["escaped-separator"] = true
			case 6:
				line.WriteString([]string{`\\`, `\a`, `\n`, `\t`}[r.IntN(4)])
				tags["backslash"] = true
			case 7:
				line.WriteString("\\\n")
				tags["continuation"] = true
			default:
				line.WriteString([]string{" ", "  ", "\t"}[r.IntN(3)])
			}
		}
		text := line.String()
		switch r.IntN(6) {
		case 0:
			tags["no-final-newline"] = true
		case 1:
			text += "\\"
			tags["trailing-backslash"] = true
			text += "\n"
		case 2:
			text += "\nsecond line\n"
			tags["more-lines"] = true
		default:
			text += "\n"
		}
		if first, _, _ := strings.Cut(text, "\n"); endsEscapedWS.MatchString(first) || endsEscapedWS.MatchString(text) {
			tags["ends-with-escaped-ifs-whitespace"] = true
		}
		raw := r.IntN(3) == 0
		opts := ""
		if raw {
			opts = "-r "
			tags["raw"] = true
		}
		nnames := r.IntN(5)
		names := []string{"x", "y", "z", "u"}[:min(nnames, 4)]
		target := strings.Join(names, " ")
		if r.IntN(6) == 0 {
			target = "-a arr"
			tags["array"] = true
			nnames = -1
		}
		tags[fmt.Sprintf("names:%d", nnames)] = true
		if carvedBy(p.env.Findings, c23Carves, tags) {
			continue
		}
		src := fmt.Sprintf("unset x y z u arr REPLY\nprintf '%%s' %s > in.txt\n%s\nread %s%s < in.txt\nst=$?\nIFS=' '\necho \"s=$st x=[$x] y=[$y] z=[$z] u=[$u] R=[$REPLY] n=${#arr[@]} a=[${arr[*]}] 0=[${arr[0]}] 1=[${arr[1]}]\"", shq(text), ifs.set, opts, target)
		var tl []string
		for t := range tags {
			tl = append(tl, t)
		}
		sort.Strings(tl)
		tl = append(tl, "ifsval:"+ifs.val, "text:"+text)
		b.Snips = append(b.Snips, Snip{Src: src, Tags: tl})
	}
	return b
}

func (p *c23) Run(payload any) mon.Result {
	b := payload.(*SnipBatch)
	res := p.diffSnips(b, func(s Snip, bash, interp snipFrame) (string, string) {
		if strings.ContainsRune(bash.Out, 1) {
			// bash 5.2 leaks its internal CTLESC byte (\001) into the variable when a
			// line holds nothing but escaped IFS whitespace: a bash bug, not a reference
			return mon.OutOfDomain, "bash-leaks-ctlesc-byte"
		}
		return "", ""
	}, nil)
	if res.Verdict == mon.Violated {
		return res
	}
	// Go API leg: expand.ReadFields on single physical lines, compared with what interp assigned
	var apiSnips []Snip
	for _, s := range b.Snips {
		if hasTag(s.Tags, "continuation") || hasTag(s.Tags, "more-lines") || hasTag(s.Tags, "array") || hasTag(s.Tags, "names:0") || hasTag(s.Tags, "trailing-backslash") || hasTag(s.Tags, "ifs:empty") {
			continue
		}
		apiSnips = append(apiSnips, s)
	}
	if len(apiSnips) > 0 {
		_, iF, err := p.runSnips(b.Prelude, apiSnips, false, nil)
		if err == nil && len(iF) == len(apiSnips) {
			for k, s := range apiSnips {
				if !iF[k].OK {
					continue
				}
				ifsv, _ := tagValue(s.Tags, "ifsval:")
				text, _ := tagValue(s.Tags, "text:")
				n := 0
				for _, t := range s.Tags {
					fmt.Sscanf(t, "names:%d", &n)
				}
				if n <= 0 || strings.Contains(strings.TrimSuffix(text, "\n"), "\n") {
					continue // more than one physical line: read only takes the first
				}
				pairs := []string{}
				if !hasTag(s.Tags, "ifs:unset") {
					pairs = append(pairs, "IFS="+ifsv)
				}
				fields := expand.ReadFields(&expand.Config{Env: expand.ListEnviron(pairs...)}, strings.TrimSuffix(text, "\n"), n, hasTag(s.Tags, "raw"))
				want := "s="
				got := iF[k].Out
				vals := make([]string, 4)
				copy(vals, fields)
				api := fmt.Sprintf("x=[%s] y=[%s] z=[%s] u=[%s]", vals[0], vals[1], vals[2], vals[3])
				res.Count("api_compared", 1)
				if !strings.Contains(got, api) {
					res.Fail("readfields-differs-from-read", fmt.Sprintf("IFS=%q raw=%v names=%d line=%q\n  expand.ReadFields: %q -> %s\n  interp read:       %s", ifsv, hasTag(s.Tags, "raw"), n, text, fields, api, got))
					res.Payload = &SnipBatch{Prelude: b.Prelude, Snips: []Snip{s}}
					_ = want
					return res
				}
			}
		}
	}
	res.Hash = mon.HashOf(b)
	res.Nontriv = res.Evals > 0
	if len(b.Snips) > 0 {
		res.Sample = map[string]any{"snippets": len(b.Snips), "first": clip(b.Snips[0].Src, 300)}
	}
	return res
}
