// Package props holds one monitor per property.
package props

import (
	"bytes"
	"os"
	"fmt"
	"math/rand/v2"
	"strconv"
	"strings"

	"mvdan.cc/sh/v3/syntax"
	"verif/gen"
	"verif/mon"
)

// base carries what every monitor needs.
type base struct {
	env    *mon.Env
	corpus *gen.Corpus
}

func (b *base) Init(env *mon.Env) error {
	b.env = env
	b.corpus = gen.LoadCorpus(env.Repo)
	if len(b.corpus.Snippets) < 1000 {
		return fmt.Errorf("corpus extraction from %s yielded only %d snippets", env.Repo, len(b.corpus.Snippets))
	}
	return nil
}

func (b *base) Level() string { return "exploration" }

func tierN(tier string, quick, thorough int) int {
	if tier == "thorough" {
		return thorough
	}
	return quick
}

var Variants = []syntax.LangVariant{syntax.LangBash, syntax.LangPOSIX, syntax.LangMirBSDKorn, syntax.LangBats, syntax.LangZsh}

func langName(l syntax.LangVariant) string { return l.String() }

func langByName(s string) syntax.LangVariant {
	for _, l := range Variants {
		if l.String() == s {
			return l
		}
	}
	return syntax.LangBash
}

// POpts is a point of the printer option lattice.
type POpts struct {
	Indent           uint `json:"indent"`
	BinaryNextLine   bool `json:"bn,omitempty"`
	SwitchCaseIndent bool `json:"ci,omitempty"`
	SpaceRedirects   bool `json:"sr,omitempty"`
	KeepPadding      bool `json:"kp,omitempty"`
	FunctionNextLine bool `json:"fn,omitempty"`
	Minify           bool `json:"mn,omitempty"`
	SingleLine       bool `json:"sl,omitempty"`
	Simplify         bool `json:"s,omitempty"`
}

func (o POpts) String() string {
	var s []string
	s = append(s, "i"+strconv.Itoa(int(o.Indent)))
	for _, f := range []struct {
		b bool
		n string
	}{{o.BinaryNextLine, "bn"}, {o.SwitchCaseIndent, "ci"}, {o.SpaceRedirects, "sr"}, {o.KeepPadding, "kp"}, {o.FunctionNextLine, "fn"}, {o.Minify, "mn"}, {o.SingleLine, "sl"}, {o.Simplify, "s"}} {
		if f.b {
			s = append(s, f.n)
		}
	}
	return strings.Join(s, "+")
}

func (o POpts) Printer() *syntax.Printer {
	return syntax.NewPrinter(
		syntax.Indent(o.Indent),
		syntax.BinaryNextLine(o.BinaryNextLine),
		syntax.SwitchCaseIndent(o.SwitchCaseIndent),
		syntax.SpaceRedirects(o.SpaceRedirects),
		syntax.KeepPadding(o.KeepPadding),
		syntax.FunctionNextLine(o.FunctionNextLine),
		syntax.Minify(o.Minify),
		syntax.SingleLine(o.SingleLine),
	)
}

// LatticePoints draws n points: the first ones cycle through the singletons
// (each option alone), the rest are random combinations.
func LatticePoints(r *rand.Rand, n int, keepPadding, minifySingle bool) []POpts {
	singles := []POpts{
		{}, {Indent: 2}, {Indent: 4}, {Indent: 8}, {Indent: 1}, {BinaryNextLine: true}, {SwitchCaseIndent: true}, {SpaceRedirects: true},
		{FunctionNextLine: true}, {Minify: true, Simplify: true}, {Minify: true}, {SingleLine: true}, {Simplify: true},
		{Indent: 2, BinaryNextLine: true, SwitchCaseIndent: true, SpaceRedirects: true, FunctionNextLine: true},
	}
	if keepPadding {
		singles = append(singles, POpts{KeepPadding: true})
	}
	var out []POpts
	off := r.IntN(len(singles))
	for i := 0; i < n; i++ {
		if i < (n+1)/2 {
			out = append(out, singles[(off+i)%len(singles)])
			continue
		}
		o := POpts{
			Indent:           []uint{0, 0, 1, 2, 3, 4, 8}[r.IntN(7)],
			BinaryNextLine:   r.IntN(2) == 0,
			SwitchCaseIndent: r.IntN(2) == 0,
			SpaceRedirects:   r.IntN(2) == 0,
			FunctionNextLine: r.IntN(2) == 0,
			Simplify:         r.IntN(3) == 0,
		}
		switch r.IntN(4) {
		case 0:
			o.Minify = true
		case 1:
			o.SingleLine = true
		}
		if keepPadding && r.IntN(4) == 0 {
			o.KeepPadding = true
		}
		if minifySingle && r.IntN(12) == 0 {
			o.Minify, o.SingleLine = true, true
		}
		out = append(out, o)
	}
	return out
}

func parseAs(src []byte, lang syntax.LangVariant, keepComments bool) (f *syntax.File, err error) {
	defer func() {
		if e := recover(); e != nil {
			// a parser panic while generating or checking: make the input visible
			// (C06 owns the verdict on panics; here it must not be lost)
			fmt.Fprintf(os.Stderr, "PARSER PANIC lang=%s keep=%v src=%q: %v\n", lang, keepComments, src, e)
			panic(e)
		}
	}()
	p := syntax.NewParser(syntax.Variant(lang), syntax.KeepComments(keepComments))
	return p.Parse(bytes.NewReader(src), "")
}

func printWith(o POpts, n syntax.Node) ([]byte, error) {
	var buf bytes.Buffer
	err := o.Printer().Print(&buf, n)
	return buf.Bytes(), err
}

// SynCase is the payload shared by the syntactic monitors.
type SynCase struct {
	Src    []byte   `json:"src"` // base64 in JSON: inputs may hold any bytes
	SrcQ   string   `json:"src_quoted"`
	Lang   string   `json:"lang"`
	Source string   `json:"source"` // corpus | grammar | mutant | wrapped | ...
	Opts   []POpts  `json:"opts,omitempty"`
	Feat   []string `json:"features,omitempty"`
	Extra  int      `json:"extra,omitempty"`
}

func (c *SynCase) lang() syntax.LangVariant { return langByName(c.Lang) }

type synMode int

const (
	synMustParse synMode = iota // retry until the input parses in the chosen variant
	synAny                      // anything goes
)

// synInput draws one input from W1 ∪ W2 ∪ W3.
func (b *base) synInput(r *rand.Rand, mode synMode, mixed bool, comments bool) *SynCase {
	return b.synInputX(r, mode, mixed, comments, true)
}

// synInputX is synInput with a switch for the wildest sources (byte-level
// mutants and the hostile grammar mode).
func (b *base) synInputX(r *rand.Rand, mode synMode, mixed bool, comments bool, wild bool) *SynCase {
	lang := Variants[r.IntN(len(Variants))]
	if r.IntN(3) == 0 {
		lang = syntax.LangBash
	}
	glang := lang
	if !wild && (lang == syntax.LangMirBSDKorn || lang == syntax.LangZsh) {
		// the tame mode reaches mksh and zsh only through the repo's own corpus
		glang = syntax.LangBash
	}
	for try := 0; try < 40; try++ {
		var src, source string
		var feat []string
		switch k := r.IntN(10); {
		case k < 3:
			src = b.corpus.Snippets[r.IntN(len(b.corpus.Snippets))]
			source = "corpus"
		case k < 7:
			src, feat = gen.Program(r, gen.SynOpts{Lang: glang, Mixed: mixed && r.IntN(2) == 0, Depth: 1 + r.IntN(4), Comments: comments || r.IntN(3) == 0, Hostile: wild && r.IntN(4) == 0})
			source = "grammar"
		case k == 7 && wild:
			a := b.corpus.Snippets[r.IntN(len(b.corpus.Snippets))]
			o := b.corpus.Snippets[r.IntN(len(b.corpus.Snippets))]
			src = gen.MutateBytes(r, a, o)
			source = "mutant"
		case k == 8:
			a := b.corpus.Snippets[r.IntN(len(b.corpus.Snippets))]
			if r.IntN(2) == 0 {
				a, feat = gen.Program(r, gen.SynOpts{Lang: glang, Depth: 2, Comments: comments})
			}
			src = gen.Wrap(r, a, lang != syntax.LangPOSIX)
			source = "wrapped"
		case k == 7:
			continue
		default:
			a := b.corpus.Snippets[r.IntN(len(b.corpus.Snippets))]
			src = gen.Relayout(r, a)
			source = "relayout"
		}
		if source == "grammar" && glang != lang {
			lang = glang
		}
		if mode == synMustParse {
			if _, err := parseAs([]byte(src), lang, true); err != nil {
				// a corpus snippet may belong to another variant: try the others
				ok := false
				if source == "corpus" || source == "relayout" || source == "wrapped" {
					for _, l2 := range Variants {
						if _, err := parseAs([]byte(src), l2, true); err == nil {
							lang, ok = l2, true
							break
						}
					}
				}
				if !ok {
					continue
				}
			}
		}
		return &SynCase{Src: []byte(src), SrcQ: strconv.Quote(src), Lang: langName(lang), Source: source, Feat: feat}
	}
	return nil
}

func nodeCount(n syntax.Node) int {
	k := 0
	syntax.Walk(n, func(x syntax.Node) bool {
		if x != nil {
			k++
		}
		return true
	})
	return k
}

func nodeKinds(n syntax.Node, into map[string]int) {
	syntax.Walk(n, func(x syntax.Node) bool {
		if x != nil {
			into[fmt.Sprintf("%T", x)]++
		}
		return true
	})
}

func endsInLoneBackslash(src []byte) bool {
	s := bytes.TrimRight(src, "\n")
	_ = s
	n := 0
	for i := len(src) - 1; i >= 0 && src[i] == '\\'; i-- {
		n++
	}
	return n%2 == 1
}

// shrinkSyn minimises a SynCase: first the option list, then the source bytes
// by chunk deletion (ddmin-style).
func shrinkSyn(payload any, still func(any) bool) any {
	c := *(payload.(*SynCase))
	try := func(d SynCase) bool {
		d.SrcQ = strconv.Quote(string(d.Src))
		return still(&d)
	}
	if len(c.Opts) > 1 {
		for _, o := range c.Opts {
			d := c
			d.Opts = []POpts{o}
			if try(d) {
				c = d
				break
			}
		}
	}
	src := c.Src
	for chunk := len(src) / 2; chunk >= 1; chunk /= 2 {
		for i := 0; i+chunk <= len(src); {
			cand := append(append([]byte{}, src[:i]...), src[i+chunk:]...)
			d := c
			d.Src = cand
			if try(d) {
				src = cand
			} else {
				i += chunk
			}
		}
	}
	c.Src = src
	c.SrcQ = strconv.Quote(string(src))
	return &c
}
