package props

import (
	"fmt"
	"math/rand/v2"
	"os"
	"regexp"
	"strconv"
	"strings"
	"time"

	"verif/gen"
	"verif/oracle"
)

// ProgCase is the payload of the program-level monitors (C03 C04 C26 C29 C30).
type ProgCase struct {
	Src    string   `json:"src"`
	Tags   []string `json:"tags,omitempty"`
	Source string   `json:"source"`
	Opts   []POpts  `json:"opts,omitempty"`
	Want   string   `json:"want,omitempty"` // recorded expectation of a repo test (calibration)
	Hist   []string `json:"hist,omitempty"` // C30: programs run before
}

func (c *ProgCase) hasTag(t string) bool {
	for _, x := range c.Tags {
		if x == t {
			return true
		}
	}
	return false
}

var (
	absPathRe  = regexp.MustCompile(`(^|[^A-Za-z0-9_$.}/-])/(?:[A-Za-z0-9_.]|$)`)
	devNullRe  = regexp.MustCompile(`/dev/null`)
	nondetRe   = regexp.MustCompile(`RANDOM|\$\$|PPID|SECONDS|EPOCH|BASHPID|\bBASH|\$0|\$\{0|\btime\b|\btimes\b|\bkill\b|\bsleep\b|\bjobs\b|\bulimit\b|\bumask\b|\bhelp\b|\bdate\b|\bps\b|\bcoproc\b|\bdisown\b|\bfg\b|\bbg\b|\bsu\b|\bsudo\b|\bchmod\b|\bchown\b|\bmkfifo\b|\bwhoami\b|\bid\b|\buname\b|\bhostname\b|\bpwd\b|\bPWD\b|\bHOME\b|\bTMPDIR\b|\bUID\b|\bEUID\b|\bGID\b|\bhash\b|\btype\b|\bcommand\b|\bwhich\b|\benv\b|\bprintenv\b|\bexport -p\b|\bdeclare -p\b|\bset$|\bset;|\bset \|`)
	backgrndRe = regexp.MustCompile(`[^&>|<]&\s*($|[^&>])`)
	dangerRe   = regexp.MustCompile(`\brm\b|\bmv\b|\bdd\b|\bcurl\b|\bwget\b|\bnc\b|\bssh\b|\bexec\b|~|\.\./|\bcd\s+/|\bcd\s*$|\bcd\s*;|\bcd -|\bpushd\b|\bpopd\b|\bdirs\b|\bsource\b|^\s*\.\s|;\s*\.\s|\bgo\b|\bbash\b|\bsh\b|\bread\b[^<|]*$|<&0|/dev/stdin|/dev/tty|\bselect\b|\bmapfile\b[^<]*$|\breadarray\b[^<]*$|\bcat\s*$|\bcat\s*;|\bgetopts\b|\bshopt -p|\bshopt$|\bshopt;|\balias$|\balias;|\bset -o$|\bset \+o$|\btrap$|\btrap;|\btrap -p|\bwait\b`)
)

// safeRepoProgram is the safety + determinism filter applied to programs taken
// from the repository's interpreter tests before they are handed to a real shell.
func safeRepoProgram(src string) bool {
	s := devNullRe.ReplaceAllString(src, "DEVNULL")
	if absPathRe.MatchString(s) || nondetRe.MatchString(s) || backgrndRe.MatchString(s) || dangerRe.MatchString(s) {
		return false
	}
	if len(src) > 600 || strings.ContainsAny(src, "\x00") {
		return false
	}
	return true
}

// interpCorpus returns the repo's runTests programs that are safe, deterministic
// and not marked #IGNORE or #JUSTERR (the repo's own lists of intentional
// differences in behaviour and in diagnostics).
func (b *base) interpCorpus() []gen.InterpCase {
	var out []gen.InterpCase
	for _, ic := range b.corpus.Interp {
		if strings.Contains(ic.Want, "#IGNORE") || strings.Contains(ic.Want, "#JUSTERR") || !safeRepoProgram(ic.In) {
			continue
		}
		out = append(out, ic)
	}
	return out
}

var shiftCountRe = regexp.MustCompile(`(<<|>>)=?\s*(-?[0-9]+)`)

var numTokRe = regexp.MustCompile(`(^|[ =(\[])(-?[0-9]+)($|[ ;)\]])`)

// mutateArgs replaces one numeric token by a boundary value (W3 argument mutants).
func mutateArgs(r *rand.Rand, src string) string {
	locs := numTokRe.FindAllStringSubmatchIndex(src, -1)
	if len(locs) == 0 {
		return src
	}
	m := locs[r.IntN(len(locs))]
	repl := []string{"-1", "0", "1", "2", "3", "10", "255", "256"}[r.IntN(8)]
	out := src[:m[4]] + repl + src[m[5]:]
	for _, sm := range shiftCountRe.FindAllStringSubmatch(out, -1) {
		if n, err := strconv.Atoi(sm[2]); err != nil || n < 0 || n > 63 {
			return src // shift counts outside 0..63 are undefined in C and in the property
		}
	}
	return out
}

type progOut struct {
	Stdout   string
	Status   int
	Stderr   string
	TimedOut bool
	Fatal    bool
	Panic    string
	Err      string
}

func (o progOut) same(p progOut) bool { return o.Stdout == p.Stdout && o.Status == p.Status }
func (o progOut) String() string {
	return fmt.Sprintf("status=%d stdout=%q", o.Status, clip(o.Stdout, 600))
}

func clip(s string, n int) string {
	if len(s) > n {
		return s[:n] + "…"
	}
	return s
}

// inBash runs src with the real bash in a fresh scratch directory.
func (b *base) inShell(shell string, src string) (progOut, error) {
	dir, err := oracle.ScratchDir(b.env.Build, "prog")
	if err != nil {
		return progOut{}, err
	}
	defer os.RemoveAll(dir)
	r := oracle.RunShell(shell, nil, []byte(src), dir, oracle.SealedEnv(b.env.Build, dir), []byte{}, 20*time.Second)
	if r.Err != nil {
		return progOut{}, r.Err
	}
	return progOut{Stdout: strings.ReplaceAll(string(r.Stdout), dir, "<SCRATCH>"), Status: r.Status, Stderr: string(r.Stderr), TimedOut: r.TimedOut}, nil
}

// inInterp runs src with interp.Runner in a fresh scratch directory, with the
// same environment, an exec handler confined to the allowlisted PATH and an
// open handler confined to the scratch directory.
func (b *base) inInterp(src string, extra ...func(*oracle.InterpOpts)) (progOut, error) {
	dir, err := oracle.ScratchDir(b.env.Build, "prog")
	if err != nil {
		return progOut{}, err
	}
	defer os.RemoveAll(dir)
	o := oracle.InterpOpts{Dir: dir, Env: oracle.SealedEnv(b.env.Build, dir), Stdin: []byte{}, Timeout: 20 * time.Second}
	for _, f := range extra {
		f(&o)
	}
	r := oracle.RunInterp([]byte(src), o)
	if r.ParseErr != nil {
		return progOut{}, fmt.Errorf("parse: %v", r.ParseErr)
	}
	out := progOut{Stdout: strings.ReplaceAll(string(r.Stdout), dir, "<SCRATCH>"), Status: r.Status, Stderr: string(r.Stderr), TimedOut: r.TimedOut, Fatal: r.Fatal, Panic: r.Panic}
	if r.Err != nil {
		out.Err = r.Err.Error()
	}
	return out, nil
}
