package props

import (
	"fmt"
	"math/rand/v2"
	"sort"
	"strings"

	"mvdan.cc/sh/v3/expand"
	"verif/mon"
)

// C34: environment lists behave like an ordered map.
type c34 struct{ base }

func init() { mon.Register(&c34{}) }

type EnvCase struct {
	Pairs []string `json:"pairs"`
}

func (*c34) ID() string { return "C34" }
func (*c34) Rule() string {
	return "lists of 0..40 name=value pairs with duplicate names, names that are prefixes or one-byte extensions of one another, names containing bytes below and above '=' (digits . _ ~ multi-byte), empty names, pairs without '=' and values containing '='; through the exported API only: ListEnviron(pairs...).Get for every name occurring, every proper prefix and one-byte extension and never-given names must equal a Go map built left to right over the valid pairs; Each must yield each surviving name once, sorted, with the model's value, and stop when told to; FuncEnviron must treat an empty result as unset. Non-trivial: a duplicate or an invalid pair is present; distinct: hash of the list."
}
func (*c34) NumCases(tier string) int      { return tierN(tier, 50000, 3000000) }
func (*c34) MinNontrivial(tier string) int { return tierN(tier, 15000, 800000) }
func (*c34) New() any                      { return &EnvCase{} }
func (*c34) Assumptions() []string {
	return []string{"runs on Linux: names are case-sensitive (the Windows upper-casing branch is not exercised)"}
}

var envNames = []string{"A", "AB", "ABC", "B", "a", "ab", "PATH", "PATH1", "PATH_", "P", "_", "_x", "x.y", "x~", "x-", "x0", "x", "é", "éa", "日本", "0", "1A", "", "HOME", "HOM", "Z", "z"}
var envVals = []string{"", "1", "v", "a=b", "=", "==x", "with space", "é", "x\ny", "/usr/bin:/bin"}

func (p *c34) Gen(i int, r *rand.Rand) any {
	n := r.IntN(41)
	c := &EnvCase{}
	for j := 0; j < n; j++ {
		name := envNames[r.IntN(len(envNames))]
		if r.IntN(8) == 0 {
			name += string(rune('a' + r.IntN(3)))
		}
		switch r.IntN(10) {
		case 0:
			c.Pairs = append(c.Pairs, name) // no '='
		case 1:
			c.Pairs = append(c.Pairs, "="+envVals[r.IntN(len(envVals))]) // empty name
		default:
			c.Pairs = append(c.Pairs, name+"="+envVals[r.IntN(len(envVals))])
		}
	}
	return c
}

func (p *c34) Run(payload any) mon.Result {
	c := payload.(*EnvCase)
	var res mon.Result
	fail := func(reason, msg string) mon.Result {
		res.Fail(reason, fmt.Sprintf("pairs=%q\n%s", c.Pairs, msg))
		return res
	}
	model := map[string]string{}
	nontriv := false
	for _, kv := range c.Pairs {
		i := strings.IndexByte(kv, '=')
		if i <= 0 {
			nontriv = true
			continue // invalid: no '=' or empty name
		}
		if _, dup := model[kv[:i]]; dup {
			nontriv = true
		}
		model[kv[:i]] = kv[i+1:]
	}
	env := expand.ListEnviron(c.Pairs...)
	probes := map[string]bool{"NEVER": true, "": true, "=": true}
	for _, kv := range c.Pairs {
		name := kv
		if i := strings.IndexByte(kv, '='); i >= 0 {
			name = kv[:i]
		}
		probes[name] = true
		for k := 1; k < len(name); k++ {
			probes[name[:k]] = true
		}
		probes[name+"a"] = true
		probes[name+"0"] = true
		probes[name+"="] = true
	}
	for name := range probes {
		res.Evals++
		vr := env.Get(name)
		want, ok := model[name]
		if ok != vr.IsSet() {
			return fail("get-set-mismatch", fmt.Sprintf("Get(%q).IsSet()=%v, model has it: %v", name, vr.IsSet(), ok))
		}
		if ok {
			if vr.Kind != expand.String || vr.Str != want {
				return fail("get-value-mismatch", fmt.Sprintf("Get(%q)=%q (kind %v), model says %q", name, vr.Str, vr.Kind, want))
			}
			if !vr.Exported {
				return fail("get-not-exported", fmt.Sprintf("Get(%q) is not marked exported", name))
			}
		}
	}
	// Each
	var names []string
	seen := map[string]int{}
	env.Each(func(name string, vr expand.Variable) bool {
		names = append(names, name)
		seen[name]++
		if want, ok := model[name]; !ok || vr.Str != want || !vr.IsSet() {
			res.Fail("each-value-mismatch", fmt.Sprintf("pairs=%q\nEach yielded %q=%q, model: %q (present %v)", c.Pairs, name, vr.Str, want, ok))
		}
		return true
	})
	res.Evals++
	if res.Verdict == mon.Violated {
		return res
	}
	if len(names) != len(model) {
		return fail("each-count-mismatch", fmt.Sprintf("Each yielded %d names %q, model has %d", len(names), names, len(model)))
	}
	for n, k := range seen {
		if k != 1 {
			return fail("each-duplicate", fmt.Sprintf("Each yielded %q %d times", n, k))
		}
	}
	if !sort.StringsAreSorted(names) {
		return fail("each-not-sorted", fmt.Sprintf("Each order %q is not sorted", names))
	}
	if len(names) > 1 {
		k := 0
		env.Each(func(string, expand.Variable) bool { k++; return false })
		if k != 1 {
			return fail("each-does-not-stop", fmt.Sprintf("Each called the function %d times after it returned false", k))
		}
		res.Evals++
	}
	// FuncEnviron
	fe := expand.FuncEnviron(func(n string) string { return model[n] })
	for name, want := range model {
		vr := fe.Get(name)
		if (want != "") != vr.IsSet() || (want != "" && vr.Str != want) {
			return fail("funcenviron-mismatch", fmt.Sprintf("FuncEnviron.Get(%q): set=%v str=%q, function returns %q", name, vr.IsSet(), vr.Str, want))
		}
		if want != "" && !vr.Exported {
			return fail("funcenviron-not-exported", fmt.Sprintf("FuncEnviron.Get(%q) is not exported", name))
		}
		res.Evals++
	}
	if fe.Get("NEVER").IsSet() {
		return fail("funcenviron-mismatch", "FuncEnviron.Get of a name mapping to \"\" is set")
	}
	res.Hash = mon.HashOf(c.Pairs)
	res.Nontriv = nontriv
	res.Count("pairs", len(c.Pairs))
	res.Count("surviving_names", len(model))
	res.Sample = map[string]any{"pairs": c.Pairs, "each": names}
	return res
}
