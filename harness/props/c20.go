package props

import (
	"fmt"
	"math"
	"math/rand/v2"
	"strings"
	"time"

	"verif/mon"
)

// C20: arithmetic evaluation matches bash.
type c20 struct{ base }

func init() { mon.Register(&c20{}) }

func (*c20) ID() string { return "C20" }
func (*c20) Rule() string {
	return "expression trees of depth <= 4 over bash's operators (unary + - ! ~, pre/post ++ --, ** * / % + - << >> < <= > >= == != & ^ | && || ?: , = and the ten op= forms) with literals in decimal, octal, hex and base#n (bases 2..64 incl. @ and _) and variables holding integers, spaces around integers, names of other variables (followed recursively), expression text, nothing or being unset; each expression is used in one of five contexts: echo $((e)), ((e)) status, let \"e\" status, ${arr[e]} subscript, and for ((i=0; e; i++)) with a bounded body; after it every variable is dumped. The generator tracks a bound on the magnitude of every sub-expression and keeps it below 2^40 and shift counts within 0..20, so no intermediate leaves int64 (the property excludes those cases). Each batch of 120 snippets runs once in bash and once in interp; stdout (value and variable dump) and status must agree; division by zero and negative exponents must be errors (status 1, no value) in both. Non-trivial: the batch ran; distinct: hash of the batch."
}
func (*c20) NumCases(tier string) int      { return tierN(tier, 170, 5000) }
func (*c20) MinNontrivial(tier string) int { return tierN(tier, 100, 3000) }
func (*c20) New() any                      { return &SnipBatch{} }
func (*c20) CaseTimeout() time.Duration    { return 300 * time.Second }
func (*c20) Assumptions() []string {
	return []string{"bash 5.2.15 is ground truth", "a difference seen in a batch only counts if it reproduces when the snippet runs alone in fresh processes"}
}

type arGen struct {
	r     *rand.Rand
	bound map[string]float64 // log2 bound of |value| per variable
	tags  map[string]bool
	ints  []string // variables holding a plain integer: only these are used as $v (an empty $v is a syntax error, not arithmetic)
	// noAssign: variables that may appear as $v and are therefore never assigned in
	// the same expression while known finding C20-dollar-expanded-lazily is listed
	noAssign map[string]bool
}

var arVars = []string{"a", "b", "c", "d", "e"}

const arMax = 40.0 // log2 bound

func (g *arGen) leaf() (string, float64) {
	switch k := g.r.IntN(12); {
	case k < 5:
		v := arVars[g.r.IntN(len(arVars))]
		return v, g.bound[v]
	case k == 5 && len(g.ints) > 0:
		v := g.ints[g.r.IntN(len(g.ints))]
		return "$" + v, g.bound[v]
	case k == 6:
		g.tags["literal-base"] = true
		lits := []struct {
			s string
			b float64
		}{{"010", 4}, {"0x1F", 5}, {"2#101", 3}, {"16#ff", 8}, {"36#z", 6}, {"64#_", 6}, {"64#@", 6}, {"8#17", 4}, {"0", 0}, {"007", 3}, {"0xA", 4}, {"37#a", 6}, {"62#Z", 6}, {"36#Z", 6}, {"35#Y", 6}, {"16#Ff", 8}, {"11#A", 4}, {"36#Az", 11}, {"0Xa", 4}}
		l := lits[g.r.IntN(len(lits))]
		return l.s, l.b
	default:
		n := g.r.IntN(20)
		return fmt.Sprint(n), math.Log2(float64(n) + 1)
	}
}

func (g *arGen) lvalue() string {
	for try := 0; try < 20; try++ {
		if v := arVars[g.r.IntN(len(arVars))]; !g.noAssign[v] {
			return v
		}
	}
	return "zz"
}

// expr returns an expression and a log2 bound on its magnitude.
func (g *arGen) expr(d int) (string, float64) {
	if d == 0 || g.r.IntN(4) == 0 {
		return g.leaf()
	}
	lim := func(s string, b float64) (string, float64) {
		if b > arMax {
			return g.leaf()
		}
		return s, b
	}
	switch k := g.r.IntN(30); {
	case k < 3:
		x, bx := g.expr(d - 1)
		y, by := g.expr(d - 1)
		return lim(x+" + "+y, math.Max(bx, by)+1)
	case k < 5:
		x, bx := g.expr(d - 1)
		y, by := g.expr(d - 1)
		return lim(x+" - "+y, math.Max(bx, by)+1)
	case k < 7:
		x, bx := g.expr(d - 1)
		y, by := g.expr(d - 1)
		return lim(x+" * "+y, bx+by)
	case k == 7:
		x, bx := g.expr(d - 1)
		y, _ := g.expr(d - 1)
		g.tags["division"] = true
		return x + " / " + y, bx
	case k == 8:
		x, bx := g.expr(d - 1)
		y, by := g.expr(d - 1)
		g.tags["division"] = true
		return x + " % " + y, math.Max(bx, by)
	case k == 9:
		x, bx := g.leaf()
		n := g.r.IntN(4)
		g.tags["power"] = true
		if g.r.IntN(12) == 0 {
			return "(" + x + " ** -1)", bx
		}
		return lim(fmt.Sprintf("(%s ** %d)", x, n), bx*float64(n)+1)
	case k == 10:
		x, bx := g.expr(d - 1)
		n := g.r.IntN(12)
		g.tags["shift"] = true
		return lim(fmt.Sprintf("((%s) << %d)", x, n), bx+float64(n))
	case k == 11:
		x, bx := g.expr(d - 1)
		g.tags["shift"] = true
		return fmt.Sprintf("((%s) >> %d)", x, g.r.IntN(12)), bx
	case k < 14:
		x, _ := g.expr(d - 1)
		y, _ := g.expr(d - 1)
		return x + []string{" < ", " <= ", " > ", " >= ", " == ", " != "}[g.r.IntN(6)] + y, 1
	case k < 16:
		x, bx := g.expr(d - 1)
		y, by := g.expr(d - 1)
		return x + []string{" & ", " ^ ", " | "}[g.r.IntN(3)] + y, math.Max(bx, by) + 1
	case k < 18:
		x, _ := g.expr(d - 1)
		y, _ := g.expr(d - 1)
		g.tags["logical"] = true
		return x + []string{" && ", " || "}[g.r.IntN(2)] + y, 1
	case k == 18:
		c, _ := g.expr(d - 1)
		x, bx := g.expr(d - 1)
		y, by := g.expr(d - 1)
		g.tags["ternary"] = true
		return "(" + c + " ? " + x + " : " + y + ")", math.Max(bx, by)
	case k == 19:
		x, bx := g.expr(d - 1)
		return []string{"-", "+", "!", "~"}[g.r.IntN(4)] + "(" + x + ")", bx + 1
	case k == 20:
		v := g.lvalue()
		g.tags["incdec"] = true
		g.bound[v] = math.Max(g.bound[v], 1) + 1
		return []string{v + "++", v + "--", "++" + v, "--" + v}[g.r.IntN(4)], g.bound[v]
	case k < 23:
		v := g.lvalue()
		x, bx := g.expr(d - 1)
		g.tags["assign"] = true
		if bx > arMax {
			x, bx = g.leaf()
		}
		g.bound[v] = bx
		return "(" + v + " = " + x + ")", bx
	case k < 25:
		v := g.lvalue()
		x, bx := g.leaf()
		g.tags["op-assign"] = true
		ops := []struct {
			op string
			f  func(a, b float64) float64
		}{{"+=", func(a, b float64) float64 { return math.Max(a, b) + 1 }}, {"-=", func(a, b float64) float64 { return math.Max(a, b) + 1 }}, {"*=", func(a, b float64) float64 { return a + b }}, {"/=", func(a, b float64) float64 { return a }}, {"%=", func(a, b float64) float64 { return math.Max(a, b) }}, {"&=", func(a, b float64) float64 { return math.Max(a, b) + 1 }}, {"|=", func(a, b float64) float64 { return math.Max(a, b) + 1 }}, {"^=", func(a, b float64) float64 { return math.Max(a, b) + 1 }}}
		o := ops[g.r.IntN(len(ops))]
		nb := o.f(g.bound[v], bx)
		if nb > arMax {
			return g.leaf()
		}
		g.bound[v] = nb
		return "(" + v + " " + o.op + " " + x + ")", nb
	case k == 25:
		v := g.lvalue()
		n := g.r.IntN(8)
		g.tags["op-assign"] = true
		if g.r.IntN(2) == 0 {
			if g.bound[v]+float64(n) > arMax {
				return g.leaf()
			}
			g.bound[v] += float64(n)
			return fmt.Sprintf("(%s <<= %d)", v, n), g.bound[v]
		}
		return fmt.Sprintf("(%s >>= %d)", v, n), g.bound[v]
	case k == 26:
		x, _ := g.expr(d - 1)
		y, by := g.expr(d - 1)
		g.tags["comma"] = true
		return "(" + x + ", " + y + ")", by
	default:
		x, bx := g.expr(d - 1)
		return "(" + x + ")", bx
	}
}

func (p *c20) Gen(i int, r *rand.Rand) any {
	b := &SnipBatch{}
	for k := 0; k < 120; k++ {
		g := &arGen{r: r, bound: map[string]float64{}, tags: map[string]bool{}}
		var sb strings.Builder
		sb.WriteString("unset a b c d e zz arr\n")
		// variable state
		for _, v := range arVars {
			switch s := r.IntN(14); {
			case s < 6:
				n := r.IntN(41) - 20
				fmt.Fprintf(&sb, "%s=%d\n", v, n)
				g.bound[v] = 5
				g.ints = append(g.ints, v)
			case s == 6:
				fmt.Fprintf(&sb, "%s=' %d '\n", v, r.IntN(9))
				g.bound[v] = 4
				g.tags["value-with-spaces"] = true
			case s == 7:
				o := arVars[r.IntN(len(arVars))]
				if o > v { // only point "forwards": a cycle of names is an error in bash, not arithmetic
					fmt.Fprintf(&sb, "%s=%s\n", v, o) // a name: followed recursively
					g.bound[v] = 6
					g.tags["value-is-name"] = true
				}
			case s == 8:
				fmt.Fprintf(&sb, "%s='%d+%d*2'\n", v, r.IntN(5), r.IntN(5))
				g.bound[v] = 5
				g.tags["value-is-expression"] = true
			case s == 9:
				fmt.Fprintf(&sb, "%s=\n", v)
				g.bound[v] = 0
			case s == 10:
				fmt.Fprintf(&sb, "%s=%s\n", v, []string{"0x10", "010", "2#11", "-0x3"}[r.IntN(4)])
				g.bound[v] = 5
				g.tags["value-with-base"] = true
			default:
				g.bound[v] = 0 // unset
			}
		}
		if p.env.Findings.Carved("C20-dollar-expanded-lazily") && len(g.ints) > 0 {
			// $v is only used for variables the expression does not assign
			keep := g.ints[:1+r.IntN(len(g.ints))]
			g.noAssign = map[string]bool{}
			for _, v := range keep {
				g.noAssign[v] = true
			}
			g.ints = keep
		} else if len(g.ints) > 0 {
			g.tags["dollar-var-may-be-assigned"] = true
		}
		for _, v := range arVars { // names may chain: take the max so that bounds stay valid
			if g.bound[v] < 6 {
				g.bound[v] = 6
			}
		}
		e, _ := g.expr(1 + r.IntN(4))
		ctx := r.IntN(8)
		switch {
		case ctx < 3:
			fmt.Fprintf(&sb, "echo \"v=$(( %s ))\"\n", e)
			g.tags["ctx:expansion"] = true
		case ctx == 3:
			fmt.Fprintf(&sb, "(( %s ))\necho \"s=$?\"\n", e)
			g.tags["ctx:command"] = true
		case ctx == 4:
			fmt.Fprintf(&sb, "let \"%s\"\necho \"s=$?\"\n", e)
			g.tags["ctx:let"] = true
		case ctx == 5:
			fmt.Fprintf(&sb, "arr=(p q r s t u v w x y z)\necho \"el=${arr[ (%s) %% 11 ]}\"\n", e)
			g.tags["ctx:subscript"] = true
		case ctx == 6:
			fmt.Fprintf(&sb, "for ((i = 0; (%s) && i < 3; i++)); do echo \"i=$i\"; done\n", e)
			g.tags["ctx:for"] = true
		default:
			fmt.Fprintf(&sb, "x=$(( %s ))\necho \"x=$x s=$?\"\n", e)
			g.tags["ctx:assignment"] = true
		}
		sb.WriteString("echo \"a=$a b=$b c=$c d=$d e=$e\"")
		var tags []string
		for t := range g.tags {
			tags = append(tags, t)
		}
		tags = append(tags, "diag-ok") // arithmetic errors are part of the property
		b.Snips = append(b.Snips, Snip{Src: sb.String(), Tags: tags})
	}
	return b
}

func (p *c20) Run(payload any) mon.Result {
	b := payload.(*SnipBatch)
	res := p.diffSnips(b, p.judge, nil)
	if res.Verdict == "" || res.Verdict == mon.Held {
		res.Hash = mon.HashOf(b)
		res.Nontriv = res.Evals > 0
		if len(b.Snips) > 0 {
			res.Sample = map[string]any{"snippets": len(b.Snips), "first": clip(b.Snips[0].Src, 300)}
		}
	}
	return res
}

func (p *c20) judge(s Snip, bash, interp snipFrame) (string, string) {
	// bash checks for a negative exponent even in an operand that && || or ?: does
	// not evaluate (it checks division by zero only when evaluating). Erroring on
	// code that is not evaluated is not something the property asks to reproduce.
	if strings.Contains(s.Src, "** -") && bash.Stderr && strings.ContainsAny(s.Src, "&|?") {
		// (also when interp fails later in the same expression for a reason of its
		// own: bash stopped before any side effect, interp after some)
		return mon.OutOfDomain, "negative-exponent-in-a-possibly-unevaluated-operand"
	}
	return "", ""
}
