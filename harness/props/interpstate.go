package props

import (
	"bytes"
	"context"
	"fmt"
	"io"
	"os"
	"os/exec"
	"sort"
	"strings"
	"sync"
	"time"

	"mvdan.cc/sh/v3/expand"
	"mvdan.cc/sh/v3/interp"
	"mvdan.cc/sh/v3/syntax"
	"verif/oracle"
)

// Helpers shared by the monitors that look at a Runner's state through its
// exported fields (C27 C29 C30).

type lockedBuf struct {
	mu sync.Mutex
	b  bytes.Buffer
}

func (l *lockedBuf) Write(p []byte) (int, error) {
	l.mu.Lock()
	defer l.mu.Unlock()
	if l.b.Len() < 4<<20 {
		l.b.Write(p)
	}
	return len(p), nil
}
func (l *lockedBuf) String() string { l.mu.Lock(); defer l.mu.Unlock(); return l.b.String() }
func (l *lockedBuf) Reset()         { l.mu.Lock(); defer l.mu.Unlock(); l.b.Reset() }

// newStateRunner builds a Runner confined to dir.
func newStateRunner(build, dir string, out io.Writer, params []string, extra ...interp.RunnerOption) (*interp.Runner, error) {
	opts := []interp.RunnerOption{
		interp.Dir(dir),
		interp.Env(expand.ListEnviron(oracle.SealedEnv(build, dir)...)),
		interp.StdIO(strings.NewReader(""), out, io.Discard),
		interp.ExecHandlers(oracle.SandboxExec),
		interp.OpenHandler(oracle.SandboxOpen(dir)),
	}
	if params != nil {
		opts = append(opts, interp.Params(append([]string{"--"}, params...)...))
	}
	opts = append(opts, extra...)
	return interp.New(opts...)
}

// runNode runs a node with a timeout and panic recovery; ok=false when Run did
// not come back.
func runNode(r *interp.Runner, n syntax.Node, timeout time.Duration) (err error, pan any, ok bool) {
	ctx, cancel := context.WithTimeout(context.Background(), timeout)
	defer cancel()
	return runNodeCtx(ctx, r, n, timeout)
}

// runNodeCtx is runNode under a caller-owned context (background jobs started by
// one Run call must survive into the next when statements are run one by one).
func runNodeCtx(ctx context.Context, r *interp.Runner, n syntax.Node, timeout time.Duration) (err error, pan any, ok bool) {
	done := make(chan struct{})
	go func() {
		defer close(done)
		defer func() {
			if e := recover(); e != nil {
				pan = e
			}
		}()
		err = r.Run(ctx, n)
	}()
	select {
	case <-done:
		if ctx.Err() != nil {
			return err, pan, false
		}
		return err, pan, true
	case <-time.After(timeout + 10*time.Second):
		return nil, nil, false
	}
}

func errString(err error) string {
	if err == nil {
		return "<nil>"
	}
	return err.Error()
}

// varsDump renders Runner.Vars deterministically; dir is replaced by <SCRATCH>.
func varsDump(vars map[string]expand.Variable, dirs ...string) string {
	names := make([]string, 0, len(vars))
	for n := range vars {
		names = append(names, n)
	}
	sort.Strings(names)
	var sb strings.Builder
	for _, n := range names {
		v := vars[n]
		if !v.Declared() {
			continue // a tombstone left by unset: indistinguishable from never set
		}
		fmt.Fprintf(&sb, "%s set=%v kind=%v exp=%v ro=%v local=%v", n, v.Set, v.Kind, v.Exported, v.ReadOnly, v.Local)
		switch v.Kind {
		case expand.Indexed:
			fmt.Fprintf(&sb, " list=%q idx=%v", v.List, v.Indexes)
		case expand.Associative:
			keys := make([]string, 0, len(v.Map))
			for k := range v.Map {
				keys = append(keys, k)
			}
			sort.Strings(keys)
			for _, k := range keys {
				fmt.Fprintf(&sb, " [%q]=%q", k, v.Map[k])
			}
		default:
			fmt.Fprintf(&sb, " str=%q", v.Str)
		}
		sb.WriteString("\n")
	}
	s := sb.String()
	for _, d := range dirs {
		s = strings.ReplaceAll(s, d, "<SCRATCH>")
	}
	return s
}

// funcsDump renders Runner.Funcs as name -> printed body.
func funcsDump(funcs map[string]*syntax.Stmt) string {
	names := make([]string, 0, len(funcs))
	for n := range funcs {
		names = append(names, n)
	}
	sort.Strings(names)
	var sb strings.Builder
	pr := syntax.NewPrinter()
	for _, n := range names {
		sb.WriteString(n + "() ")
		if funcs[n] != nil {
			pr.Print(&sb, funcs[n])
		}
		sb.WriteString("\n")
	}
	return sb.String()
}

func copyDir(src, dst string) error {
	if err := os.MkdirAll(dst, 0o755); err != nil {
		return err
	}
	return exec.Command("cp", "-a", src+"/.", dst+"/").Run()
}

func firstDiffLine(a, b string) string {
	la, lb := strings.Split(a, "\n"), strings.Split(b, "\n")
	for i := 0; i < len(la) || i < len(lb); i++ {
		var x, y string
		if i < len(la) {
			x = la[i]
		}
		if i < len(lb) {
			y = lb[i]
		}
		if x != y {
			return fmt.Sprintf("line %d:\n   A: %s\n   B: %s", i+1, clip(x, 300), clip(y, 300))
		}
	}
	return "(equal)"
}

func removeAll(dir string) { os.RemoveAll(dir) }
