package props

import (
	"bytes"
	"fmt"
	"math/rand/v2"
	"strings"

	"mvdan.cc/sh/v3/syntax"
	"verif/mon"
	"verif/oracle"
)

// C01: formatting preserves program structure.
type c01 struct{ base }

func init() { mon.Register(&c01{}) }

func (*c01) ID() string { return "C01" }
func (*c01) Rule() string {
	return "inputs drawn from the repo test corpus, the grammar generator (all variants) and byte/structure/layout mutants, kept only if they parse; each is printed under a fixed number of printer-option lattice points (singletons + random combinations, with/without Simplify) and the output is re-parsed and compared with the cosmetic-normalised tree; a 1-in-4 sample also prints every statement, command and call-argument word on its own. Non-trivial: the tree has >= 3 nodes; distinct: hash of (source bytes, variant)."
}
func (*c01) NumCases(tier string) int               { return tierN(tier, 3000, 60000) }
func (*c01) MinNontrivial(tier string) int          { return tierN(tier, 1500, 30000) }
func (*c01) New() any                               { return &SynCase{} }
func (*c01) Shrink(p any, still func(any) bool) any { return shrinkSyn(p, still) }
func (*c01) Assumptions() []string {
	return []string{"the reflection-based tree normaliser (oracle/canon.go) is the trusted base: it drops positions and comments and applies only the cosmetic rewrites the property lists", "inputs are limited to what the generators produce; see coverage counters"}
}

func (p *c01) Gen(i int, r *rand.Rand) any {
	c := p.synInputX(r, synMustParse, false, false, false)
	if c == nil {
		return nil
	}
	n := 6
	if p.env.Tier == "thorough" {
		n = 16
	}
	c.Opts = LatticePoints(r, n, true, true)
	c.Extra = r.IntN(4) // 0: also print sub-nodes
	return c
}

func cosm(o POpts) oracle.CanonOpts { return oracle.CanonOpts{Cosmetic: true, Minify: o.Minify} }

func (p *c01) Run(payload any) mon.Result {
	c := payload.(*SynCase)
	lang := c.lang()
	var res mon.Result
	f0, err := parseAs(c.Src, lang, true)
	if err != nil {
		return mon.Result{Verdict: mon.OutOfDomain, Reason: "does-not-parse"}
	}
	if endsInLoneBackslash(c.Src) {
		// the meaning of a lone trailing backslash at EOF is shell-defined; the
		// printer documents doubling it, which the normaliser absorbs.
		res.Count("lone_trailing_backslash", 1)
	}
	if bytes.Contains(c.Src, []byte("\\\r")) && p.env.Findings.Active("C01-backslash-cr") {
		return mon.Result{Verdict: mon.OutOfDomain, Reason: "carved:C01-backslash-cr"}
	}
	nodes := nodeCount(f0)
	res.Hash = mon.HashOf(c.Src, c.Lang)
	res.Nontriv = nodes >= 3
	res.Count("source:"+c.Source, 1)
	res.Count("lang:"+c.Lang, 1)
	kinds := map[string]int{}
	nodeKinds(f0, kinds)
	for k := range kinds {
		res.Count("node:"+strings.TrimPrefix(k, "*syntax."), 1)
	}
	res.Evals = 0
	for _, o := range c.Opts {
		res.Evals++
		res.Count("opts:"+o.String(), 1)
		f, _ := parseAs(c.Src, lang, true)
		if o.Simplify {
			syntax.Simplify(f)
		}
		if id := printerCarve(p.env.Findings, f, o); id != "" {
			res.Count("carved:"+id, 1)
			continue
		}
		want := oracle.Canon(f, cosm(o))
		out, perr := printWith(o, f)
		if o.Minify && o.SingleLine {
			if perr == nil {
				res.Fail("minify-singleline-accepted", "Print with Minify+SingleLine returned nil error; documented to refuse")
				return res
			}
			res.Count("minify_singleline_refused", 1)
			continue
		}
		if perr != nil {
			res.Fail("print-error", fmt.Sprintf("opts=%s lang=%s: Print error: %v\nsrc=%s", o, c.Lang, perr, c.SrcQ))
			return res
		}
		f2, err := parseAs(out, lang, true)
		if err != nil {
			if p.known(c, o, "reparse", string(out)) {
				res.Verdict = mon.Known
				continue
			}
			res.Fail("output-does-not-parse", fmt.Sprintf("opts=%s lang=%s: %v\nsrc=%s\nout=%q", o, c.Lang, err, c.SrcQ, out))
			return res
		}
		got := oracle.Canon(f2, cosm(o))
		if got != want {
			if id := p.knownDiff(f, f2, o); id != "" {
				res.Verdict = mon.Known
				res.Reason = id
				res.Count("known:"+id, 1)
				continue
			}
		}
		if got != want {
			res.Fail("tree-changed", fmt.Sprintf("opts=%s lang=%s\nsrc=%s\nout=%q\n%s", o, c.Lang, c.SrcQ, out, oracle.FirstDiff(want, got)))
			return res
		}
	}
	if c.Extra == 0 && len(c.Opts) > 0 {
		o := c.Opts[0]
		if o.Minify && o.SingleLine {
			o.SingleLine = false
		}
		o.Simplify = false
		if msg := p.subNodes(f0, lang, o, &res); msg != "" {
			res.Fail("subnode", fmt.Sprintf("opts=%s lang=%s src=%s\n%s", o, c.Lang, c.SrcQ, msg))
			return res
		}
	}
	res.Sample = map[string]any{"src": c.SrcQ, "lang": c.Lang, "source": c.Source, "opts": fmt.Sprint(c.Opts), "nodes": nodes}
	return res
}

func (p *c01) known(c *SynCase, o POpts, kind, out string) bool { return false }

// knownDiff is the set of difference predicates: each accepts a tree difference
// only if the difference itself has exactly the shape of a listed finding.
func (p *c01) knownDiff(a, b syntax.Node, o POpts) string {
	fs := p.env.Findings
	if fs.Active("C01-mksh-case-braces") {
		co := cosm(o)
		co.IgnoreCaseBraces = true
		if oracle.Canon(a, co) == oracle.Canon(b, co) {
			return "C01-mksh-case-braces"
		}
	}
	if o.Minify && fs.Active("C01-minify-last-case-op") {
		co := cosm(o)
		co.IgnoreLastCaseOp = true
		if oracle.Canon(a, co) == oracle.Canon(b, co) {
			return "C01-minify-last-case-op"
		}
	}
	return ""
}

// printerCarve names the known-finding region a (tree, options) pair falls in,
// if that finding is listed in KNOWN_FINDINGS.json; such pairs are not judged
// by the generated workload (only the pinned witnesses monitor the region).
func printerCarve(fs *mon.Findings, f syntax.Node, o POpts) string {
	id := ""
	hit := func(name string) {
		if id == "" && fs.Active(name) {
			id = name
		}
	}
	isLet := func(s *syntax.Stmt) bool {
		if s == nil {
			return false
		}
		_, ok := s.Cmd.(*syntax.LetClause)
		return ok
	}
	if o.SingleLine && hasHeredoc(f) {
		hit("C01-singleline-heredoc")
	}
	syntax.Walk(f, func(n syntax.Node) bool {
		switch x := n.(type) {
		case *syntax.Stmt:
			if _, ok := x.Cmd.(*syntax.FuncDecl); ok && len(x.Redirs) > 0 && x.Redirs[0].Pos().After(x.Cmd.Pos()) == false {
				hit("C01-zsh-redirect-before-funcdecl")
			}
			if o.Minify && isLet(x) {
				hit("C01-minify-let-operator")
			}
			if _, ok := x.Cmd.(*syntax.CoprocClause); ok {
				hit("C01-coproc")
			}
			for _, r := range x.Redirs {
				if r.Op == syntax.DashHdoc && r.Hdoc != nil && o.Indent == 0 && !o.Minify {
					for _, part := range r.Hdoc.Parts {
						switch part.(type) {
						case *syntax.CmdSubst, *syntax.ProcSubst, *syntax.DblQuoted:
							if part.End().Line() > part.Pos().Line() {
								hit("C01-dashhdoc-multiline-substitution")
							}
						}
					}
					for _, part := range r.Hdoc.Parts {
						if l, ok := part.(*syntax.Lit); ok && strings.Contains(l.Value, "\\\n") {
							hit("C01-dashhdoc-escaped-newline")
						}
					}
				}
			}
		case *syntax.CoprocClause:
			hit("C01-coproc")
		case *syntax.FuncDecl:
			if x.Name == nil || len(x.Names) > 0 {
				hit("C01-zsh-anonymous-or-multiname-function")
			}
		case *syntax.CaseItem:
			if len(x.Stmts) > 0 && hasHeredoc(x.Stmts[len(x.Stmts)-1]) {
				hit("C01-heredoc-last-in-case-item")
			}
		case *syntax.ParamExp:
			if x.Repl != nil && x.Repl.Orig == nil {
				hit("C01-zsh-empty-replace")
			}
		case *syntax.DblQuoted:
			for i, part := range x.Parts {
				if l, ok := part.(*syntax.Lit); ok && strings.HasSuffix(l.Value, "$") && i+1 < len(x.Parts) {
					if cs, ok := x.Parts[i+1].(*syntax.CmdSubst); ok && cs.Backquotes {
						hit("C01-dollar-before-backquote-substitution")
					}
				}
			}
		case *syntax.Word:
			for i, part := range x.Parts {
				if l, ok := part.(*syntax.Lit); ok && strings.HasSuffix(l.Value, "$") && i+1 < len(x.Parts) {
					if cs, ok := x.Parts[i+1].(*syntax.CmdSubst); ok && cs.Backquotes {
						hit("C01-dollar-before-backquote-substitution")
					}
				}
			}
			if o.Minify {
				for i, part := range x.Parts {
					pe, ok := part.(*syntax.ParamExp)
					if !ok || pe.Short || !paramSimpleP(pe) || i+1 >= len(x.Parts) {
						continue
					}
					if l, ok := x.Parts[i+1].(*syntax.Lit); ok && strings.HasPrefix(l.Value, "[") {
						hit("C01-zsh-minify-brace-subscript")
					}
				}
			}
		case *syntax.BinaryCmd:
			if hasHeredoc(x.X) && hasParens(x.Y) {
				hit("C01-heredoc-then-parens")
			}
			if o.Minify && isLet(x.X) {
				hit("C01-minify-let-operator")
			}
			if o.Minify && (x.Op == syntax.Pipe || x.Op == syntax.PipeAll) && len(x.Y.Redirs) > 0 {
				r := x.Y.Redirs[0]
				if (r.Op == syntax.RdrAll || r.Op == syntax.AppAll) && !r.Pos().After(x.Y.Pos()) {
					hit("C01-minify-pipe-rdrall")
				}
			}
		}
		return true
	})
	return id
}

// subNodes prints every statement, command and call argument on its own.
func (p *c01) subNodes(f *syntax.File, lang syntax.LangVariant, o POpts, res *mon.Result) string {
	msg := ""
	co := cosm(o)
	syntax.Walk(f, func(n syntax.Node) bool {
		if msg != "" || n == nil {
			return false
		}
		if id := printerCarve(p.env.Findings, n, o); id != "" {
			switch n.(type) {
			case *syntax.Stmt, *syntax.CallExpr:
				res.Count("carved:"+id, 1)
				return true
			case *syntax.CoprocClause:
				// words after coproc are only meaningful in that position
				return false
			}
		}
		switch x := n.(type) {
		case *syntax.Stmt:
			res.Evals++
			res.Count("sub:stmt", 1)
			out, err := printWith(o, x)
			if err != nil {
				msg = fmt.Sprintf("printing a *Stmt on its own failed: %v", err)
				return false
			}
			f2, err := parseAs(out, lang, true)
			if err != nil {
				msg = fmt.Sprintf("*Stmt printed on its own does not re-parse: %v\nout=%q", err, out)
				return false
			}
			if len(f2.Stmts) != 1 {
				msg = fmt.Sprintf("*Stmt printed on its own re-parses as %d statements\nout=%q", len(f2.Stmts), out)
				return false
			}
			if a, b := oracle.Canon(x, co), oracle.Canon(f2.Stmts[0], co); a != b && p.knownDiff(x, f2.Stmts[0], o) == "" {
				msg = fmt.Sprintf("*Stmt printed on its own re-parses differently\nout=%q\n%s", out, oracle.FirstDiff(a, b))
				return false
			}
			if x.Cmd != nil && !x.Negated && !x.Background && !x.Coprocess && !x.Disown && len(x.Redirs) == 0 {
				res.Evals++
				res.Count("sub:command", 1)
				out, err := printWith(o, x.Cmd)
				if err != nil {
					msg = fmt.Sprintf("printing a %T on its own failed: %v", x.Cmd, err)
					return false
				}
				f2, err := parseAs(out, lang, true)
				if err != nil {
					msg = fmt.Sprintf("%T printed on its own does not re-parse: %v\nout=%q", x.Cmd, err, out)
					return false
				}
				if len(f2.Stmts) != 1 {
					msg = fmt.Sprintf("%T printed on its own re-parses as %d statements\nout=%q", x.Cmd, len(f2.Stmts), out)
					return false
				}
				if a, b := oracle.Canon(x.Cmd, co), oracle.Canon(f2.Stmts[0].Cmd, co); a != b && p.knownDiff(x.Cmd, f2.Stmts[0].Cmd, o) == "" {
					msg = fmt.Sprintf("%T printed on its own re-parses differently\nout=%q\n%s", x.Cmd, out, oracle.FirstDiff(a, b))
					return false
				}
			}
		case *syntax.CallExpr:
			for i, w := range x.Args {
				if i == 0 {
					continue
				}
				res.Evals++
				res.Count("sub:word", 1)
				out, err := printWith(o, w)
				if err != nil {
					msg = fmt.Sprintf("printing an argument *Word on its own failed: %v", err)
					return false
				}
				src := append([]byte("x "), out...)
				f2, err := parseAs(src, lang, true)
				if err != nil {
					msg = fmt.Sprintf("argument *Word printed on its own does not re-parse: %v\nout=%q", err, out)
					return false
				}
				ok := false
				if len(f2.Stmts) == 1 {
					if ce, _ := f2.Stmts[0].Cmd.(*syntax.CallExpr); ce != nil && len(ce.Args) == 2 && len(f2.Stmts[0].Redirs) == 0 {
						ok = true
						if a, b := oracle.Canon(w, co), oracle.Canon(ce.Args[1], co); a != b && p.knownDiff(w, ce.Args[1], o) == "" {
							msg = fmt.Sprintf("argument *Word printed on its own re-parses differently\nout=%q\n%s", out, oracle.FirstDiff(a, b))
							return false
						}
					}
				}
				if !ok {
					msg = fmt.Sprintf("argument *Word printed on its own does not re-parse as one argument\nout=%q", out)
					return false
				}
			}
		}
		return true
	})
	return msg
}

var _ = bytes.Equal

func paramSimpleP(p *syntax.ParamExp) bool {
	return p.Param != nil && p.Flags == nil && !p.Excl && !p.Length && !p.Width && !p.IsSet &&
		p.Split == syntax.OptUnset && p.GlobSubst == syntax.OptUnset && p.RcExpand == syntax.OptUnset &&
		p.NestedParam == nil && p.Index == nil && len(p.Modifiers) == 0 && p.Slice == nil &&
		p.Repl == nil && p.Names == 0 && p.Exp == nil
}

func hasHeredoc(n syntax.Node) bool {
	found := false
	syntax.Walk(n, func(y syntax.Node) bool {
		if r, ok := y.(*syntax.Redirect); ok && (r.Op == syntax.Hdoc || r.Op == syntax.DashHdoc) {
			found = true
		}
		return !found
	})
	return found
}

func hasParens(n syntax.Node) bool {
	found := false
	syntax.Walk(n, func(y syntax.Node) bool {
		switch y.(type) {
		case *syntax.Subshell, *syntax.CmdSubst, *syntax.ProcSubst, *syntax.ArrayExpr, *syntax.CaseClause:
			found = true
		}
		return !found
	})
	return found
}
