package props

import (
	"bytes"
	"fmt"
	"math/rand/v2"

	"mvdan.cc/sh/v3/syntax"
	"strings"
	"verif/mon"
	"verif/oracle"
)

// C02: formatting is idempotent.
type c02 struct{ base }

func init() { mon.Register(&c02{}) }

func (*c02) ID() string { return "C02" }
func (*c02) Rule() string {
	return "inputs from the repo corpus, the grammar generator and structure/layout mutants that parse; for each of a fixed number of printer-option lattice points without KeepPadding (with/without Simplify) the program is formatted twice with a KeepComments parser, as shfmt does, and the two outputs must be byte-identical. Non-trivial: the first formatting changed the input or the tree has >= 3 nodes; distinct: hash of (source, variant)."
}
func (*c02) NumCases(tier string) int               { return tierN(tier, 3000, 60000) }
func (*c02) MinNontrivial(tier string) int          { return tierN(tier, 1500, 30000) }
func (*c02) New() any                               { return &SynCase{} }
func (*c02) Shrink(p any, still func(any) bool) any { return shrinkSyn(p, still) }
func (*c02) Assumptions() []string {
	return []string{"a first output that does not re-parse is property C01's violation; here the case is counted out of domain", "regions carved for known C01 findings are carved here too (same printer defects)"}
}

func (p *c02) Gen(i int, r *rand.Rand) any {
	c := p.synInputX(r, synMustParse, false, true, false)
	if c == nil {
		return nil
	}
	n := 6
	if p.env.Tier == "thorough" {
		n = 16
	}
	c.Opts = LatticePoints(r, n, false, false)
	return c
}

func (p *c02) Run(payload any) mon.Result {
	c := payload.(*SynCase)
	lang := c.lang()
	var res mon.Result
	f0, err := parseAs(c.Src, lang, true)
	if err != nil {
		return mon.Result{Verdict: mon.OutOfDomain, Reason: "does-not-parse"}
	}
	if bytes.Contains(c.Src, []byte("\\\r")) && p.env.Findings.Active("C01-backslash-cr") {
		return mon.Result{Verdict: mon.OutOfDomain, Reason: "carved:C01-backslash-cr"}
	}
	res.Hash = mon.HashOf(c.Src, c.Lang)
	res.Nontriv = nodeCount(f0) >= 3
	res.Count("source:"+c.Source, 1)
	res.Count("lang:"+c.Lang, 1)
	res.Evals = 0
	changed := 0
	for _, o := range c.Opts {
		if o.KeepPadding || (o.Minify && o.SingleLine) {
			continue
		}
		res.Evals++
		res.Count("opts:"+o.String(), 1)
		f, _ := parseAs(c.Src, lang, true)
		if o.Simplify {
			syntax.Simplify(f)
		}
		if id := printerCarve(p.env.Findings, f, o); id != "" {
			res.Count("carved:"+id, 1)
			continue
		}
		if id := idemCarve(p.env.Findings, f, o); id != "" {
			res.Count("carved:"+id, 1)
			continue
		}
		if id := commentCarve(p.env.Findings, f0, o); id != "" {
			res.Count("carved:"+id, 1)
			continue
		}
		out1, perr := printWith(o, f)
		if perr != nil {
			res.Count("c01-territory:print-error", 1)
			continue
		}
		if !bytes.Equal(out1, c.Src) {
			changed++
		}
		f2, err := parseAs(out1, lang, true)
		if err != nil {
			res.Count("c01-territory:reparse", 1)
			continue
		}
		if id := commentCarve(p.env.Findings, f2, o); id != "" {
			res.Count("carved:"+id, 1)
			continue
		}
		if id := idemCarve(p.env.Findings, f2, o); id != "" {
			res.Count("carved:"+id, 1)
			continue
		}
		if o.Simplify {
			syntax.Simplify(f2)
		}
		out2, perr := printWith(o, f2)
		if perr != nil {
			res.Fail("second-print-error", fmt.Sprintf("opts=%s lang=%s: %v\nsrc=%s\nout1=%q", o, c.Lang, perr, c.SrcQ, out1))
			return res
		}
		if !bytes.Equal(out1, out2) {
			res.Fail("not-idempotent", fmt.Sprintf("opts=%s lang=%s\nsrc=%s\nout1=%q\nout2=%q", o, c.Lang, c.SrcQ, out1, out2))
			return res
		}
	}
	if changed > 0 {
		res.Count("first_format_changed_input", 1)
	}
	res.Sample = map[string]any{"src": c.SrcQ, "lang": c.Lang, "source": c.Source, "opts": fmt.Sprint(c.Opts)}
	return res
}

// idemCarve: regions of known idempotency findings (see KNOWN_FINDINGS.json).
func idemCarve(fs *mon.Findings, f syntax.Node, o POpts) string {
	id := ""
	hit := func(name string) {
		if id == "" && fs.Active(name) {
			id = name
		}
	}
	comments := oracle.Comments(f)
	var stack []syntax.Node
	syntax.Walk(f, func(n syntax.Node) bool {
		if n == nil {
			stack = stack[:len(stack)-1]
			return true
		}
		stack = append(stack, n)
		switch x := n.(type) {
		case *syntax.CmdSubst:
			if x.Backquotes {
				multi := x.Right.Line() > x.Left.Line()
				if hasHeredoc(x) || multi {
					hit("C02-backquote-multiline")
				}
				for _, c := range comments {
					if c.Hash.After(x.Left) && x.Right.After(c.Hash) {
						hit("C02-backquote-multiline")
					}
				}
			}
		case *syntax.Redirect:
			if (x.Op == syntax.Hdoc || x.Op == syntax.DashHdoc) && x.Hdoc != nil {
				hasSubst := false
				for _, part := range x.Hdoc.Parts {
					switch part.(type) {
					case *syntax.CmdSubst, *syntax.ProcSubst:
						hasSubst = true
					}
				}
				if hasSubst {
					for _, c := range comments {
						if c.Hash.After(x.OpPos) && x.Hdoc.Pos().After(c.Hash) {
							hit("C02-heredoc-line-comment-migrates")
						}
					}
				}
				if x.Op == syntax.DashHdoc && o.Indent == 0 && !o.Minify {
					var b strings.Builder
					for _, part := range x.Hdoc.Parts {
						if l, ok := part.(*syntax.Lit); ok {
							b.WriteString(l.Value)
						} else {
							b.WriteString("X")
						}
					}
					first, min := -1, -1
					for _, line := range strings.Split(b.String(), "\n") {
						if strings.TrimLeft(line, "\t") == "" {
							continue
						}
						t := len(line) - len(strings.TrimLeft(line, "\t"))
						if first < 0 {
							first = t
						}
						if min < 0 || t < min {
							min = t
						}
					}
					if first >= 0 && min < first {
						hit("C02-dashhdoc-uneven-tabs")
					}
				}
			}
		case *syntax.TestClause:
			if x.X != nil && x.X.Pos().Line() > x.Left.Line() {
				hit("C02-test-clause-leading-newline")
			}
		case *syntax.Subshell:
			if o.Minify && len(x.Stmts) == 0 {
				hit("C02-zsh-minify-empty-subshell")
			}
			if o.Minify && len(x.Stmts) > 0 && x.Rparen.Line() > stmtsEndLine(x.Stmts) {
				hit("C02-minify-subshell-closing-later-line")
			}
		case *syntax.ArrayExpr:
			if o.Minify && x.Rparen.Line() > x.Lparen.Line() {
				hit("C02-minify-multiline-array")
			}
		case *syntax.DblQuoted:
			if o.Simplify && x.Right.Line() > x.Left.Line() {
				hit("C02-simplify-quote-escaped-newline")
			}
		case *syntax.BinaryCmd:
			if hasHeredoc(x.X) && x.Y.Pos().Line() > x.OpPos.Line() {
				_, simple := x.Y.Cmd.(*syntax.CallExpr)
				if o.BinaryNextLine || !simple || len(stack) > 3 || len(x.Y.Comments) > 0 || len(comments) > 0 {
					hit("C02-heredoc-then-operator-newline")
				}
			}
		}
		return true
	})
	return id
}

func stmtsEndLine(stmts []*syntax.Stmt) uint {
	return stmts[len(stmts)-1].End().Line()
}
