package props

import (
	"bytes"
	"fmt"
	"math/rand/v2"
	"os"
	"path/filepath"
	"regexp"
	"strconv"
	"strings"
	"time"

	"mvdan.cc/sh/v3/shell"
	"verif/mon"
	"verif/oracle"
)

// C25: shell.Expand and shell.Fields behave like bash.
type c25 struct{ base }

func init() { mon.Register(&c25{}) }

type ExpandBatch struct {
	Env     map[string]string `json:"env"` // empty value = unset
	Strings []string          `json:"strings"`          // checked through Expand (here-document text)
	Words   []string          `json:"words,omitempty"` // checked through Fields (no unquoted newline)
}

func (*c25) ID() string { return "C25" }
func (*c25) Rule() string {
	return "strings assembled from literals, blanks, newlines, single and double quotes (balanced and not), backslash escapes, $x ${x} ${x:-w} ${x-w} ${x:+w} ${x+w} ${#x} ${x#p} ${x%%p} ${x/p/r} ${x:1:2} ${x^^} ${x?} over set, empty(=unset) and unset variables, $# $? $1 $@ $*, $((..)) over integer-valued variables, brace expressions {a,b} {1..3}, tildes (~ ~/x ~root a~), here-document delimiter look-alikes (EOF, the parser's own placeholder word on a line of its own), unclosed ${ and $((, crossed with environments that set a b c foo HOME and sometimes IFS. 40 strings per batch. Ground truth: bash 5.2 in one process per batch, one subshell per string: the string as the body of a here-document read by cat (for Expand), and as the arguments of 'set --' under set -f (for Fields; the argument count and every argument NUL-terminated). Oracle: Expand returns the bytes bash printed (without the final newline) or an error exactly when bash failed; Fields returns bash's argument list or an error exactly when bash failed. Non-trivial: the batch ran; distinct: hash of the batch."
}
func (*c25) NumCases(tier string) int      { return tierN(tier, 100, 4000) }
func (*c25) MinNontrivial(tier string) int { return tierN(tier, 70, 3000) }
func (*c25) New() any                      { return &ExpandBatch{} }
func (*c25) CaseTimeout() time.Duration    { return 300 * time.Second }
func (*c25) Assumptions() []string {
	return []string{"bash 5.2.15 with LC_ALL=C.UTF-8 is ground truth", "strings never contain unquoted redirection or control operators, command substitutions, or variables bash sets by itself, so evaluating them in bash runs nothing", "positional parameters are empty on both sides", "words ending in a lone dollar sign are not given to Fields: bash 5.2 leaves such a word unsplit"}
}

var (
	c25NameThenBrace = regexp.MustCompile(`\$[A-Za-z_#?@*0-9]\w*\{`)
	c25BraceThenName = regexp.MustCompile(`\{[^{} ]*\$\w+[^{} ]*\}[\w{]`)
	c25LoneDollar    = regexp.MustCompile(`\$([^A-Za-z0-9_{(#?@*'"]|$)`)
	c25ToggleOp      = regexp.MustCompile(`\$\{\w+~`)
	c25QuoteInArg    = regexp.MustCompile(`\$\{\w+:?[-+][^}]*'`)
)

func c25String(r *rand.Rand, forFields bool) (string, []string) {
	tags := map[string]bool{}
	vars := []string{"a", "b", "c", "foo", "unset_v", "HOME", "n", "m"}
	v := func() string { return vars[r.IntN(len(vars))] }
	lit := func() string {
		return []string{"x", "y z", "word", "a.b", "*", "1", "é", "p/q", "-", "=", "%", ":", ",", "#", "!"}[r.IntN(15)]
	}
	var sb strings.Builder
	for n := 1 + r.IntN(6); n > 0; n-- {
		switch r.IntN(22) {
		case 0, 1:
			sb.WriteString(lit())
		case 2:
			bl := []string{" ", "  ", "\t", "\n"}
			if forFields {
				bl = bl[:3]
			}
			sb.WriteString(bl[r.IntN(len(bl))])
			tags["blank"] = true
		case 3:
			sb.WriteString("$" + v())
			tags["simple-param"] = true
		case 4:
			sb.WriteString("${" + v() + "}")
			tags["braced-param"] = true
		case 5:
			op := []string{":-", "-", ":+", "+"}[r.IntN(4)]
			sb.WriteString("${" + v() + op + []string{"def", "d e", "", "$a", "'q'", "\"dq\""}[r.IntN(6)] + "}")
			tags["default-op"] = true
		case 6:
			sb.WriteString("${#" + v() + "}")
			tags["length"] = true
		case 7:
			op := []string{"#", "##", "%", "%%"}[r.IntN(4)]
			sb.WriteString("${" + v() + op + []string{"*a", "v?", "x", "*", "[a-m]*"}[r.IntN(5)] + "}")
			tags["trim"] = true
		case 8:
			sb.WriteString("${" + v() + []string{"/a/X", "//a/X", "/#v/X", "/%l/X", "/a", ":1", ":1:2", ":0:-1", "^^", ",,", "^"}[r.IntN(11)] + "}")
			tags["subst-or-slice"] = true
		case 9:
			sb.WriteString([]string{"$#", "$?", "$1", "$@", "$*", "\"$@\"", "${1-none}", "${#}"}[r.IntN(8)])
			tags["special-param"] = true
		case 10:
			sb.WriteString("$((" + []string{"1+2", "n*m", "n+1", "(n+m)*2", "n>m", "m==3?7:8", "0x10", "n%m", "-n", "2**m"}[r.IntN(10)] + "))")
			tags["arithmetic"] = true
		case 11:
			sb.WriteString("'" + []string{"sq", "a b", "$a", "\\n", "{x,y}", "~"}[r.IntN(6)] + "'")
			tags["single-quotes"] = true
		case 12:
			sb.WriteString("\"" + []string{"dq", "a  b", "$a", "${b}", "\\$a", "\\\\", "{x,y}", "~", "$((n+1))", "\\\"", "x'y"}[r.IntN(11)] + "\"")
			tags["double-quotes"] = true
		case 13:
			sb.WriteString("\\" + []string{"$", "\\", "a", " ", "\"", "'", "{", "~", "*", "\n"}[r.IntN(9+b2i(!forFields))])
			tags["backslash"] = true
		case 14:
			sb.WriteString([]string{"{a,b}", "{1..3}", "x{a,b}y", "{a,b}{c,d}", "{a}", "{a,b", "{$a,$b}", "{a..c}", "{,x}", "{3..1}"}[r.IntN(10)])
			tags["braces"] = true
		case 15:
			sb.WriteString([]string{"~", "~/x", "~/", "a~", "\"~\"", "~/x y", "~nosuchuser_zz"}[r.IntN(7)])
			tags["tilde"] = true
		case 16:
			dl := []string{"\nEOF\n", "\nMVDAN_CC_SH_SYNTAX_EOF\n", "\n__VERIF__\n", "EOF", "MVDAN_CC_SH_SYNTAX_EOF", "__VERIF__"}
			if forFields {
				dl = dl[3:]
			}
			sb.WriteString(dl[r.IntN(len(dl))])
			tags["delimiter-lookalike"] = true
		case 17:
			if r.IntN(3) == 0 {
				sb.WriteString([]string{"${", "${a", "$((1+", "\"open", "'open", "${a:-", "${a%", "$(("}[r.IntN(8)])
				tags["unclosed"] = true
				n = 1 // nothing follows: what would close it is a matter of each shell's scanner
			}
		case 18:
			sb.WriteString([]string{"${" + v() + "?}", "${" + v() + ":?msg}"}[r.IntN(2)])
			tags["error-if-unset"] = true
		case 19:
			sb.WriteString([]string{"$", "$ ", "$=x", "${}", "$%", "${a b}", "${1a}", "$'x\\ty'", "$\"loc\""}[r.IntN(9)])
			tags["odd-dollar"] = true
		default:
			sb.WriteString(lit())
		}
	}
	var tl []string
	for t := range tags {
		tl = append(tl, t)
	}
	return sb.String(), tl
}

func (p *c25) Gen(i int, r *rand.Rand) any {
	b := &ExpandBatch{Env: map[string]string{}}
	vals := []string{"", "", "val", "a b", " lead", "trail ", "x*y", "va lue", "aXa", "é", "a:b", "/home/u", "3", "12", "-4", "0"}
	for _, n := range []string{"a", "b", "c", "foo"} {
		b.Env[n] = vals[r.IntN(len(vals))]
	}
	b.Env["unset_v"] = ""
	b.Env["n"] = []string{"3", "12", "-4", "0", "7"}[r.IntN(5)]
	b.Env["m"] = []string{"3", "2", "5", "1"}[r.IntN(4)]
	b.Env["HOME"] = []string{"/home/u", "/h w", "/", "/home/u/"}[r.IntN(4)]
	if r.IntN(4) == 0 {
		b.Env["IFS"] = []string{":", ", ", "x", " "}[r.IntN(4)]
	}
	for k := 0; k < 40; k++ {
		s, _ := c25String(r, k%2 == 0)
		if strings.ContainsAny(s, "\x00") {
			continue
		}
		if j := strings.ReplaceAll(s, "\\\n", ""); strings.Contains(j, "$$") || strings.Contains(j, "$-") || strings.Contains(j, "$!") {
			continue // process state bash has and an environment function has not
		}
		if c25ToggleOp.MatchString(s) {
			continue // ${x~pat}: an undocumented bash operator
		}
		if k%2 == 0 {
			if p.env.Findings.Carved("C25-tilde-after-equals-sign") && (strings.Contains(s, "=~") || strings.Contains(s, "~:") || strings.Contains(s, ":~")) {
				continue
			}
			if c25LoneDollar.MatchString(s) {
				continue // bash 5.2 does not split a word that ends in a lone dollar sign (x="a b"; set -- $x$ gives one argument)
			}
			if p.env.Findings.Carved("C25-braces-expanded-after-parameters") && (c25NameThenBrace.MatchString(s) || c25BraceThenName.MatchString(s)) {
				continue
			}
			b.Words = append(b.Words, s)
		} else {
			if p.env.Findings.Carved("C25-single-quotes-in-an-argument-inside-a-document") && c25QuoteInArg.MatchString(s) {
				continue
			}
			b.Strings = append(b.Strings, s)
		}
	}
	return b
}

const c25Script = `__D=$HOME
__x() { __o=; eval "IFS= read -r -d '' __o <<__VERIF_HEREDOC_END__
$__s
__VERIF_HEREDOC_END__
"; printf '%s' "$__o"; }
__f() { set -f; eval "set -- $__s" || return 1; printf '%d\0' $#; [ $# -gt 0 ] && printf '%s\0' "$@"; return 0; }
__n=$(<"$__D/N"); __i=0
while [ $__i -lt $__n ]; do
IFS= read -r -d '' __s <"$__D/S$__i"
unset IFS; set --; . "$__D/ENV"
case $__s in
*'?'*) ( __x ) >"$__D/XO$__i" 2>"$__D/XE$__i"; echo $? >"$__D/XS$__i";;
*) __x >"$__D/XO$__i" 2>"$__D/XE$__i"; echo 0 >"$__D/XS$__i";;
esac
__i=$((__i+1))
done
__n=$(<"$__D/NW"); __i=0
while [ $__i -lt $__n ]; do
IFS= read -r -d '' __s <"$__D/W$__i"
unset IFS; set --; . "$__D/ENV"
case $__s in
*'?'*) ( __f ) >"$__D/FO$__i" 2>"$__D/FE$__i"; echo $? >"$__D/FS$__i";;
*) __f >"$__D/FO$__i" 2>"$__D/FE$__i"; echo $? >"$__D/FS$__i";;
esac
set +f
__i=$((__i+1))
done
`

func (p *c25) Run(payload any) mon.Result {
	b := payload.(*ExpandBatch)
	var res mon.Result
	if len(b.Strings)+len(b.Words) == 0 {
		return mon.Result{Verdict: mon.OutOfDomain, Reason: "empty-batch"}
	}
	dir, err := oracle.ScratchDir(p.env.Build, "c25")
	if err != nil {
		return mon.Result{Verdict: mon.Inconclusive, Reason: "scratch-dir"}
	}
	defer os.RemoveAll(dir)
	var envsh strings.Builder
	home := ""
	for k, v := range b.Env {
		if v == "" {
			fmt.Fprintf(&envsh, "unset %s\n", k)
		} else {
			fmt.Fprintf(&envsh, "%s=%s\n", k, shq(v))
		}
		if k == "HOME" {
			home = v
		}
	}
	_ = home
	os.WriteFile(filepath.Join(dir, "ENV"), []byte(envsh.String()), 0o644)
	os.WriteFile(filepath.Join(dir, "N"), []byte(strconv.Itoa(len(b.Strings))), 0o644)
	for i, s := range b.Strings {
		os.WriteFile(filepath.Join(dir, "S"+strconv.Itoa(i)), []byte(s), 0o644)
	}
	var words []string
	for _, w := range b.Words {
		if strings.Contains(w, "\n") || strings.ContainsAny(w, "<>;&|`") || strings.Contains(w, "$(") && !strings.Contains(w, "$((") {
			continue // bash would run a command or redirect: never evaluated
		}
		words = append(words, w)
	}
	os.WriteFile(filepath.Join(dir, "NW"), []byte(strconv.Itoa(len(words))), 0o644)
	for i, s := range words {
		os.WriteFile(filepath.Join(dir, "W"+strconv.Itoa(i)), []byte(s), 0o644)
	}
	br := oracle.RunShell("bash", nil, []byte(c25Script), dir, oracle.SealedEnv(p.env.Build, dir), []byte{}, 120*time.Second)
	if br.Err != nil {
		return mon.Result{Verdict: mon.Inconclusive, Reason: "bash-run-failed", Detail: br.Err.Error()}
	}
	if _, err := os.Stat(filepath.Join(dir, "XS0")); err != nil && len(b.Strings) > 0 {
		return mon.Result{Verdict: mon.Inconclusive, Reason: "bash-driver-produced-nothing", Detail: fmt.Sprintf("status %d stderr %s", br.Status, clip(string(br.Stderr), 600))}
	}
	env := func(name string) string {
		switch name {
		case "#", "?":
			return "0" // the state of the bash process the strings are evaluated in
		}
		return b.Env[name]
	}
	rd := func(name string) []byte {
		x, _ := os.ReadFile(filepath.Join(dir, name))
		return x
	}
	var first string
	fail := func(s, reason, format string, a ...any) {
		res.Count("violations:"+reason, 1)
		if res.Verdict != mon.Violated {
			res.Verdict, res.Reason = mon.Violated, reason
			first = s
		}
		if res.Counters["violations:"+reason] <= 3 {
			res.Detail += fmt.Sprintf("[%s] env %v\nstring %q\n", reason, b.Env, s) + fmt.Sprintf(format, a...) + "\n"
		}
	}
	for i, s := range b.Strings {
		idx := strconv.Itoa(i)
		// Expand
		xo, xs, xe := rd("XO"+idx), strings.TrimSpace(string(rd("XS"+idx))), rd("XE"+idx)
		if xs == "" {
			res.Count("bash_result_missing", 1)
			continue
		}
		res.Evals++
		bashErr := xs != "0" || len(xe) > 0
		got, gerr := shell.Expand(s, env)
		switch {
		case bashErr && gerr != nil:
			res.Count("expand:both-fail", 1)
		case bashErr != (gerr != nil):
			fail(s, "expand-error-disagreement", "bash: status %s stderr %q stdout %q\nExpand: %q, err=%v", xs, clip(string(xe), 200), clip(string(xo), 200), clip(got, 200), gerr)
		default:
			want := strings.TrimSuffix(string(xo), "\n")
			if got != want {
				fail(s, "expand-differs", "bash:   %q\nExpand: %q", clip(want, 400), clip(got, 400))
			} else {
				res.Count("expand:agree", 1)
			}
		}
	}
	for i, s := range words {
		idx := strconv.Itoa(i)
		fo, fs, fe := rd("FO"+idx), strings.TrimSpace(string(rd("FS"+idx))), rd("FE"+idx)
		bashErr := fs != "0" || len(fe) > 0
		gf, ferr := shell.Fields(s, env)
		res.Evals++
		switch {
		case bashErr && ferr != nil:
			res.Count("fields:both-fail", 1)
		case bashErr != (ferr != nil):
			fail(s, "fields-error-disagreement", "bash: status %s stderr %q stdout %q\nFields: %q, err=%v", fs, clip(string(fe), 200), clip(string(fo), 200), gf, ferr)
		default:
			parts := bytes.Split(fo, []byte{0})
			var want []string
			if len(parts) >= 2 {
				nargs, _ := strconv.Atoi(string(parts[0]))
				for _, x := range parts[1 : len(parts)-1] {
					want = append(want, string(x))
				}
				if nargs != len(want) {
					res.Count("bash_output_unreadable", 1)
					continue
				}
			}
			if fmt.Sprintf("%q", gf) != fmt.Sprintf("%q", want) {
				fail(s, "fields-differ", "bash:   %q\nFields: %q", want, gf)
			} else {
				res.Count("fields:agree", 1)
			}
		}
	}
	if res.Verdict == mon.Violated {
		res.Payload = &ExpandBatch{Env: b.Env, Strings: []string{first}, Words: []string{first}}
		if strings.Contains(first, "\n") {
			res.Payload.(*ExpandBatch).Words = nil
		}
		return res
	}
	res.Hash = mon.HashOf(b)
	res.Nontriv = res.Evals > 0
	res.Sample = map[string]any{"env": b.Env, "first": clip(strings.Join(append(append([]string{}, b.Strings...), b.Words...), " | "), 100)}
	return res
}

func b2i(b bool) int {
	if b {
		return 1
	}
	return 0
}
