package props

import (
	"bytes"
	"fmt"
	"math/rand/v2"
	"os"
	"os/exec"
	"path/filepath"
	"regexp"
	"sort"
	"strconv"
	"strings"
	"time"

	"verif/gen"
	"verif/mon"
	"verif/oracle"
)

// C36: shfmt's list, diff, write and stdin modes agree.
type c36 struct{ base }

func init() { mon.Register(&c36{}) }

type TreeFile struct {
	Path    string `json:"path"`
	Content []byte `json:"content"`
	Mode    uint32 `json:"mode"`
	Kind    string `json:"kind"` // formatted | unformatted | unparseable | not-shell
	Symlink string `json:"symlink,omitempty"`
}

type TreeCase struct {
	Files    []TreeFile `json:"files"`
	Flags    []string   `json:"flags,omitempty"`        // flag mode
	EC       string     `json:"editorconfig,omitempty"` // EditorConfig mode: contents of ./.editorconfig
	ECSub    string     `json:"editorconfig_lib,omitempty"`
	Uniform  bool       `json:"ec_equivalent_to_flags,omitempty"` // EC is one [*] section equivalent to Flags
	Explicit bool       `json:"explicit_args,omitempty"`          // pass the files as arguments instead of "."
	Tags     []string   `json:"tags,omitempty"`
}

func (*c36) ID() string { return "C36" }
func (*c36) Rule() string {
	return "generated trees of 3-11 files (extensions .sh .bash .mksh .bats .zsh, extension-less with and without shebangs, hidden files, non-shell extensions, nested directories, a .git directory, symlinks; contents already formatted for the options in force, unformatted, or unparseable, per language, from the grammar generator, the repo corpus and the runnable generator with simplifiable constructs) crossed with a flag set F from {-i n, -bn, -ci, -sr, -fn, -s, -mn, -ln x, -p} or an .editorconfig (one [*] section equivalent to F, or several sections by glob, by [[shell]]/[[bash]] language and in a nested directory giving different files different options). The built shfmt binary is run as -l, -l=0, -d, plain, -f, -l -w and -w, on '.' or on the files as explicit arguments, in scratch copies. Reference per file: stdout/status of one 'shfmt F --filename=<path> -' < file (one process per file). Oracle: -l lists exactly the files whose reference differs from their bytes, each once; its status is non-zero iff it listed a file or a file failed to parse; stderr names exactly the unparseable files; -d prints a diff for exactly those files and applying each diff to the file gives the reference; plain output is the concatenation of the references in walk order; after -w every parseable file holds its reference, unparseable ones are untouched, modes are unchanged, and -l and -d then print nothing; -l -w lists the same files as -l; an .editorconfig equivalent to F gives the same listing and bytes as F. Non-trivial: at least one file is listed and at least one is not; distinct: hash of the case."
}
func (*c36) NumCases(tier string) int      { return tierN(tier, 100, 3000) }
func (*c36) MinNontrivial(tier string) int { return tierN(tier, 50, 1500) }
func (*c36) New() any                      { return &TreeCase{} }
func (*c36) CaseTimeout() time.Duration    { return 300 * time.Second }
func (*c36) Assumptions() []string {
	return []string{"a file whose reference output is itself not a fixed point of the formatter (C02's concern) is left out of the 'after -w, -l lists nothing' clause", "-kp is not generated (deprecated, and outside C01/C02's domain)"}
}

func (p *c36) shfmt(dir string, stdin []byte, args ...string) (stdout, stderr []byte, status int, err error) {
	cmd := exec.Command(filepath.Join(p.env.Build, "shfmt"), args...)
	cmd.Dir = dir
	cmd.Env = []string{"HOME=" + dir, "PATH=/nonexistent", "NO_COLOR=1", "TERM=dumb", "LC_ALL=C"}
	if stdin != nil {
		cmd.Stdin = bytes.NewReader(stdin)
	}
	var so, se bytes.Buffer
	cmd.Stdout, cmd.Stderr = &so, &se
	done := make(chan error, 1)
	if err := cmd.Start(); err != nil {
		return nil, nil, -1, err
	}
	go func() { done <- cmd.Wait() }()
	select {
	case e := <-done:
		if e != nil {
			if ee, ok := e.(*exec.ExitError); ok && ee.ExitCode() >= 0 {
				return so.Bytes(), se.Bytes(), ee.ExitCode(), nil
			}
			return so.Bytes(), se.Bytes(), -1, fmt.Errorf("shfmt %v: %v; stderr: %s", args, e, clip(se.String(), 2000))
		}
		return so.Bytes(), se.Bytes(), 0, nil
	case <-time.After(60 * time.Second):
		cmd.Process.Kill()
		return nil, nil, -1, fmt.Errorf("shfmt %v timed out", args)
	}
}

var c36Exts = []struct{ ext, lang string }{{".sh", "auto"}, {".sh", "auto"}, {".bash", "bash"}, {".mksh", "mksh"}, {".bats", "bats"}, {".zsh", "zsh"}, {"", "auto"}}

func (p *c36) content(r *rand.Rand, lang string) (src string, ok bool) {
	for try := 0; try < 30; try++ {
		switch k := r.IntN(10); {
		case k < 3:
			s, _ := gen.RunProgram(r, gen.RunOpts{Simplifiable: true, Stmts: 1 + r.IntN(4)})
			src = s
		case k < 6:
			src = p.corpus.Snippets[r.IntN(len(p.corpus.Snippets))]
		default:
			l := langByName(map[string]string{"auto": "bash", "posix": "posix"}[lang])
			if lang != "auto" && lang != "posix" {
				l = langByName(lang)
			}
			if lang == "mksh" || lang == "zsh" {
				l = langByName("bash")
			}
			src, _ = gen.Program(r, gen.SynOpts{Lang: l, Depth: 1 + r.IntN(3), Comments: r.IntN(2) == 0})
		}
		if strings.ContainsRune(src, 0) || len(src) == 0 {
			continue
		}
		if !strings.HasSuffix(src, "\n") && r.IntN(4) > 0 {
			src += "\n"
		}
		return src, true
	}
	return "", false
}

func (p *c36) Gen(i int, r *rand.Rand) any {
	c := &TreeCase{}
	// options
	type opt struct{ flag, ec string }
	var chosen []opt
	pool := []opt{{"-bn", "binary_next_line = true"}, {"-ci", "switch_case_indent = true"}, {"-sr", "space_redirects = true"}, {"-fn", "function_next_line = true"}, {"-s", "simplify = true"}, {"-mn", "minify = true"}}
	ind := []opt{{"-i=0", "indent_style = tab"}, {"-i=2", "indent_style = space\nindent_size = 2"}, {"-i=4", "indent_style = space\nindent_size = 4"}, {"-i=8", "indent_style = space\nindent_size = 8"}, {"-i=3", "indent_style = space\nindent_size = 3"}}
	chosen = append(chosen, ind[r.IntN(len(ind))])
	for _, o := range pool {
		if r.IntN(4) == 0 {
			chosen = append(chosen, o)
		}
	}
	langAll := ""
	switch r.IntN(8) {
	case 0:
		langAll = "bash"
		chosen = append(chosen, opt{"-ln=bash", "shell_variant = bash"})
	case 1:
		langAll = "posix"
		if r.IntN(2) == 0 {
			chosen = append(chosen, opt{"-p", "shell_variant = posix"})
		} else {
			chosen = append(chosen, opt{"-ln=posix", "shell_variant = posix"})
		}
	}
	mode := r.IntN(10)
	var ecLines []string
	for _, o := range chosen {
		c.Flags = append(c.Flags, o.flag)
		ecLines = append(ecLines, o.ec)
	}
	switch {
	case mode < 4:
		c.Tags = append(c.Tags, "mode:flags")
	case mode < 6:
		c.Uniform = true
		c.EC = "root = true\n\n[*]\n" + strings.Join(ecLines, "\n") + "\n"
		c.Tags = append(c.Tags, "mode:editorconfig-equivalent")
	default:
		// sectioned: different files get different options
		c.Flags = nil
		secs := []string{"[*]", "[*.bash]", "[lib/**]", "[[bash]]", "[[shell]]", "[bin/*]", "[{a,b}*.sh]", "[*.mksh]"}
		var sb strings.Builder
		sb.WriteString("root = true\n")
		r.Shuffle(len(secs), func(i, j int) { secs[i], secs[j] = secs[j], secs[i] })
		for _, s := range secs[:2+r.IntN(4)] {
			sb.WriteString("\n" + s + "\n")
			sb.WriteString(ind[r.IntN(len(ind))].ec + "\n")
			for _, o := range pool {
				if r.IntN(3) == 0 {
					sb.WriteString(o.ec + "\n")
				}
			}
			if r.IntN(6) == 0 {
				sb.WriteString("ignore = true\n")
			}
		}
		c.EC = sb.String()
		if r.IntN(3) == 0 {
			c.ECSub = "[*]\n" + ind[r.IntN(len(ind))].ec + "\n" + pool[r.IntN(len(pool))].ec + "\n"
		}
		c.Tags = append(c.Tags, "mode:editorconfig-sections")
	}
	c.Explicit = r.IntN(3) == 0
	// files
	dirs := []string{"", "", "lib/", "bin/", "lib/deep/", "a dir/"}
	n := 3 + r.IntN(9)
	used := map[string]bool{}
	for k := 0; k < n; k++ {
		e := c36Exts[r.IntN(len(c36Exts))]
		lang := e.lang
		if langAll != "" {
			lang = langAll
		}
		name := dirs[r.IntN(len(dirs))] + []string{"a", "b", "c", "run", "x-y", "Z_1", "a b"}[r.IntN(7)] + strconv.Itoa(k) + e.ext
		if used[name] {
			continue
		}
		used[name] = true
		src, ok := p.content(r, lang)
		if !ok {
			continue
		}
		f := TreeFile{Path: name, Mode: []uint32{0o644, 0o755, 0o600, 0o640, 0o444}[r.IntN(5)], Kind: "as-generated"}
		if e.ext == "" {
			switch r.IntN(4) {
			case 0: // no shebang: not a script when walking
			case 1:
				src = "#!/bin/sh\n" + src
			case 2:
				src = "#!/usr/bin/env bash\n" + src
			default:
				src = "#! /bin/" + []string{"bash", "dash", "mksh", "zsh", "bats"}[r.IntN(5)] + " -e\n" + src
			}
		}
		switch r.IntN(8) {
		case 0:
			src += []string{"if then\n", "echo $(\n", "foo )\n", "'unclosed\n", "for ;\n", "<<< <<<\n"}[r.IntN(6)]
			f.Kind = "unparseable"
		case 1, 2, 3:
			f.Kind = "to-be-formatted" // Run replaces the content by its reference before the checks
		}
		f.Content = []byte(src)
		c.Files = append(c.Files, f)
	}
	// extras that must never be touched
	if r.IntN(2) == 0 {
		c.Files = append(c.Files, TreeFile{Path: "notes.txt", Content: []byte("echo   'not  a script'\n"), Mode: 0o644, Kind: "not-shell"})
	}
	if r.IntN(2) == 0 {
		c.Files = append(c.Files, TreeFile{Path: ".hidden.sh", Content: []byte("echo   hidden\n"), Mode: 0o644, Kind: "hidden"})
	}
	if r.IntN(2) == 0 {
		c.Files = append(c.Files, TreeFile{Path: ".git/hooks/pre-commit.sh", Content: []byte("echo   vcs\n"), Mode: 0o755, Kind: "vcs"})
	}
	if r.IntN(2) == 0 && len(c.Files) > 0 {
		c.Files = append(c.Files, TreeFile{Path: "link.sh", Symlink: c.Files[0].Path, Kind: "symlink"})
	}
	return c
}

func writeTree(dir string, c *TreeCase, withEC bool) error {
	for _, f := range c.Files {
		p := filepath.Join(dir, f.Path)
		if err := os.MkdirAll(filepath.Dir(p), 0o755); err != nil {
			return err
		}
		if f.Symlink != "" {
			rel, _ := filepath.Rel(filepath.Dir(p), filepath.Join(dir, f.Symlink))
			if err := os.Symlink(rel, p); err != nil {
				return err
			}
			continue
		}
		if err := os.WriteFile(p, f.Content, 0o644); err != nil {
			return err
		}
		if err := os.Chmod(p, os.FileMode(f.Mode)); err != nil {
			return err
		}
	}
	if withEC && c.EC != "" {
		if err := os.WriteFile(filepath.Join(dir, ".editorconfig"), []byte(c.EC), 0o644); err != nil {
			return err
		}
		if c.ECSub != "" {
			os.MkdirAll(filepath.Join(dir, "lib"), 0o755)
			if err := os.WriteFile(filepath.Join(dir, "lib", ".editorconfig"), []byte(c.ECSub), 0o644); err != nil {
				return err
			}
		}
	}
	return nil
}

type treeSnap map[string]string // path -> "mode\x00content" or "L:target"

func snapTree(dir string) treeSnap {
	s := treeSnap{}
	filepath.Walk(dir, func(p string, info os.FileInfo, err error) error {
		if err != nil || info.IsDir() {
			return nil
		}
		rel, _ := filepath.Rel(dir, p)
		if info.Mode()&os.ModeSymlink != 0 {
			t, _ := os.Readlink(p)
			s[rel] = "L:" + t
			return nil
		}
		b, _ := os.ReadFile(p)
		s[rel] = fmt.Sprintf("%o\x00%s", info.Mode().Perm(), b)
		return nil
	})
	return s
}

var hunkRe = regexp.MustCompile(`^@@ -(\d+)(?:,(\d+))? \+(\d+)(?:,(\d+))? @@`)

// applyUnified applies one file's unified diff (as printed by shfmt -d) to orig.
func applyUnified(orig []byte, diff string) ([]byte, error) {
	ol := bytes.SplitAfter(orig, []byte("\n"))
	if len(ol) > 0 && len(ol[len(ol)-1]) == 0 {
		ol = ol[:len(ol)-1]
	}
	var out []byte
	pos := 0
	lines := strings.SplitAfter(diff, "\n")
	i := 0
	for i < len(lines) && !strings.HasPrefix(lines[i], "@@") {
		i++
	}
	for i < len(lines) {
		m := hunkRe.FindStringSubmatch(lines[i])
		if m == nil {
			if lines[i] == "" {
				i++
				continue
			}
			return nil, fmt.Errorf("unexpected diff line %q", lines[i])
		}
		a, _ := strconv.Atoi(m[1])
		bcount := 1
		if m[2] != "" {
			bcount, _ = strconv.Atoi(m[2])
		}
		start := a - 1
		if bcount == 0 {
			start = a
		}
		if start < pos || start > len(ol) {
			return nil, fmt.Errorf("hunk start %d out of order (pos %d, %d lines)", start, pos, len(ol))
		}
		for ; pos < start; pos++ {
			out = append(out, ol[pos]...)
		}
		i++
		for i < len(lines) && lines[i] != "" && !strings.HasPrefix(lines[i], "@@") {
			l := lines[i]
			text := l[1:]
			noNL := i+1 < len(lines) && strings.HasPrefix(lines[i+1], "\\")
			if noNL {
				text = strings.TrimSuffix(text, "\n")
			}
			switch l[0] {
			case ' ', '-':
				if pos >= len(ol) || string(ol[pos]) != text {
					got := "<eof>"
					if pos < len(ol) {
						got = string(ol[pos])
					}
					return nil, fmt.Errorf("hunk line %q does not match the file's line %d %q", l, pos+1, got)
				}
				if l[0] == ' ' {
					out = append(out, text...)
				}
				pos++
			case '+':
				out = append(out, text...)
			default:
				return nil, fmt.Errorf("unexpected hunk line %q", l)
			}
			i++
			if noNL {
				i++
			}
		}
	}
	for ; pos < len(ol); pos++ {
		out = append(out, ol[pos]...)
	}
	return out, nil
}

type fileRef struct {
	out    []byte
	ok     bool
	stderr string
}

func (p *c36) Run(payload any) mon.Result {
	c := payload.(*TreeCase)
	var res mon.Result
	fail := func(reason, format string, a ...any) mon.Result {
		var fl []string
		for _, f := range c.Files {
			fl = append(fl, fmt.Sprintf("%s(%s,%o)", f.Path, f.Kind, f.Mode))
		}
		res.Fail(reason, fmt.Sprintf("flags=%v explicit=%v\n.editorconfig:\n%s\nlib/.editorconfig:\n%s\nfiles: %s\n", c.Flags, c.Explicit, c.EC, c.ECSub, strings.Join(fl, " "))+fmt.Sprintf(format, a...))
		return res
	}
	incon := func(reason string, err error) mon.Result {
		return mon.Result{Verdict: mon.Inconclusive, Reason: reason, Detail: fmt.Sprint(err)}
	}
	base, err := oracle.ScratchDir(p.env.Build, "c36")
	if err != nil {
		return incon("scratch-dir", err)
	}
	defer os.RemoveAll(base)
	ecMode := c.EC != ""
	flags := c.Flags
	if ecMode {
		flags = nil
	}
	mk := func(name string, withEC bool) (string, error) {
		d := filepath.Join(base, name)
		if err := os.MkdirAll(d, 0o755); err != nil {
			return "", err
		}
		return d, writeTree(d, c, withEC)
	}
	t0, err := mk("t0", true)
	if err != nil {
		return incon("write-tree", err)
	}
	args := func(extra ...string) []string { return append(append([]string{}, flags...), extra...) }
	ref := func(dir, path string, content []byte) fileRef {
		so, se, st, err := p.shfmt(dir, content, args("--filename="+path, "-")...)
		res.Evals++
		if err != nil || st != 0 {
			return fileRef{ok: false, stderr: string(se)}
		}
		return fileRef{out: so, ok: true}
	}
	// "to-be-formatted" files get their reference as content, so that the tree
	// has files that -l must not list
	changed := false
	for i := range c.Files {
		f := &c.Files[i]
		if f.Kind == "to-be-formatted" {
			if r := ref(t0, f.Path, f.Content); r.ok {
				if r2 := ref(t0, f.Path, r.out); r2.ok && bytes.Equal(r2.out, r.out) {
					f.Content = r.out
					f.Kind = "formatted"
					changed = true
					continue
				}
			}
			f.Kind = "as-generated"
		}
	}
	if changed {
		os.RemoveAll(t0)
		if t0, err = mk("t0", true); err != nil {
			return incon("write-tree", err)
		}
	}
	// which paths does shfmt consider?
	var targets []string
	if c.Explicit {
		for _, f := range c.Files {
			if f.Symlink == "" && f.Kind != "vcs" {
				targets = append(targets, f.Path)
			}
		}
	} else {
		targets = []string{"."}
	}
	fo, fe, fst, err := p.shfmt(t0, nil, args(append([]string{"-f"}, targets...)...)...)
	if err != nil {
		return incon("shfmt-f", err)
	}
	if fst != 0 {
		return mon.Result{Verdict: mon.OutOfDomain, Reason: "find-failed", Detail: string(fe)}
	}
	var walk []string
	for _, l := range strings.Split(strings.TrimSuffix(string(fo), "\n"), "\n") {
		if l != "" {
			walk = append(walk, l)
		}
	}
	if c.Explicit {
		// a regular file given as an argument is formatted whatever its name
		// (-f alone still applies the extension and shebang filter)
		walk = append([]string{}, targets...)
	}
	content := map[string][]byte{}
	kind := map[string]string{}
	for _, f := range c.Files {
		content[f.Path] = f.Content
		kind[f.Path] = f.Kind
	}
	for _, w := range walk {
		if _, ok := content[filepath.Clean(w)]; !ok {
			return fail("find-lists-unknown-path", "shfmt -f printed %q, which is not a regular generated file", w)
		}
		switch kind[filepath.Clean(w)] {
		case "hidden", "vcs", "not-shell", "symlink":
			if !c.Explicit {
				return fail("walk-includes-excluded-file", "walking '.' found %q (%s)", w, kind[filepath.Clean(w)])
			}
		}
	}
	refs := map[string]fileRef{}
	var wantList, wantErr []string
	var wantPlain []byte
	for _, w := range walk {
		r := ref(t0, w, content[filepath.Clean(w)])
		refs[w] = r
		switch {
		case !r.ok:
			wantErr = append(wantErr, w)
		case !bytes.Equal(r.out, content[filepath.Clean(w)]):
			wantList = append(wantList, w)
			wantPlain = append(wantPlain, r.out...)
		default:
			wantPlain = append(wantPlain, r.out...)
		}
	}
	res.Count("files_considered", len(walk))
	res.Count("files_expected_listed", len(wantList))
	res.Count("files_expected_unparseable", len(wantErr))
	res.Count("files_expected_clean", len(walk)-len(wantList)-len(wantErr))
	wantStatus := 0
	if len(wantList) > 0 || len(wantErr) > 0 {
		wantStatus = 1
	}
	sameSet := func(got, want []string) string {
		g := append([]string{}, got...)
		w := append([]string{}, want...)
		sort.Strings(g)
		sort.Strings(w)
		if strings.Join(g, "\x00") == strings.Join(w, "\x00") {
			return ""
		}
		return fmt.Sprintf("got %q\nwant %q", g, w)
	}
	errPaths := func(se []byte) []string {
		var ps []string
		seen := map[string]bool{}
		for _, l := range strings.Split(string(se), "\n") {
			for _, w := range walk {
				if strings.HasPrefix(l, w+":") && !seen[w] {
					seen[w] = true
					ps = append(ps, w)
				}
			}
		}
		return ps
	}
	before := snapTree(t0)

	// -l
	lo, le, lst, err := p.shfmt(t0, nil, args(append([]string{"-l"}, targets...)...)...)
	if err != nil {
		return incon("shfmt-l", err)
	}
	res.Evals++
	var listed []string
	if len(lo) > 0 {
		listed = strings.Split(strings.TrimSuffix(string(lo), "\n"), "\n")
	}
	if d := sameSet(listed, wantList); d != "" {
		return fail("list-wrong", "shfmt %v -l %v listed the wrong files (reference: one stdin run per file)\n%s\nstderr: %s", flags, targets, d, clip(string(le), 600))
	}
	if lst != wantStatus {
		return fail("list-status-wrong", "shfmt -l exited %d, want %d (listed %d, unparseable %d)", lst, wantStatus, len(wantList), len(wantErr))
	}
	if d := sameSet(errPaths(le), wantErr); d != "" {
		return fail("list-errors-wrong", "shfmt -l reported errors for the wrong files\n%s\nstderr: %s", d, clip(string(le), 600))
	}
	// -l=0
	l0, _, l0st, err := p.shfmt(t0, nil, args(append([]string{"-l=0"}, targets...)...)...)
	if err == nil {
		res.Evals++
		var got []string
		if len(l0) > 0 {
			got = strings.Split(strings.TrimSuffix(string(l0), "\x00"), "\x00")
		}
		if d := sameSet(got, wantList); d != "" || l0st != wantStatus {
			return fail("list0-wrong", "shfmt -l=0 (status %d, want %d)\n%s", l0st, wantStatus, d)
		}
	}
	// -d
	do, de, dst, err := p.shfmt(t0, nil, args(append([]string{"-d"}, targets...)...)...)
	if err != nil {
		return incon("shfmt-d", err)
	}
	res.Evals++
	if dst != wantStatus {
		return fail("diff-status-wrong", "shfmt -d exited %d, want %d; stderr: %s", dst, wantStatus, clip(string(de), 400))
	}
	var diffed []string
	chunks := strings.Split("\n"+string(do), "\ndiff ")
	for _, ch := range chunks[1:] {
		ls := strings.SplitN(ch, "\n", 4)
		if len(ls) < 3 || !strings.HasPrefix(ls[1], "--- ") || !strings.HasSuffix(ls[1], ".orig") {
			return fail("diff-unreadable", "cannot read the diff header: %q", clip(ch, 300))
		}
		path := strings.TrimSuffix(strings.TrimPrefix(ls[1], "--- "), ".orig")
		diffed = append(diffed, path)
		r, ok := refs[path]
		if !ok || !r.ok {
			continue
		}
		body := ""
		if len(ls) == 4 {
			body = ls[3]
		}
		if !strings.HasSuffix(body, "\n") {
			body += "\n"
		}
		got, err := applyUnified(content[filepath.Clean(path)], body)
		if err != nil {
			return fail("diff-does-not-apply", "the diff printed for %s does not apply to the file: %v\n%s", path, err, clip(ch, 1500))
		}
		if !bytes.Equal(got, r.out) {
			return fail("diff-gives-other-bytes", "applying the diff printed for %s gives\n%q\nbut the reference output is\n%q", path, clip(string(got), 600), clip(string(r.out), 600))
		}
		res.Count("diffs_applied", 1)
	}
	if d := sameSet(diffed, wantList); d != "" {
		return fail("diff-files-wrong", "shfmt -d printed diffs for the wrong files\n%s", d)
	}
	// plain
	po, _, pst, err := p.shfmt(t0, nil, args(targets...)...)
	if err != nil {
		return incon("shfmt-plain", err)
	}
	res.Evals++
	wantP := 0
	if len(wantErr) > 0 {
		wantP = 1
	}
	if !bytes.Equal(po, wantPlain) || pst != wantP {
		return fail("plain-output-wrong", "shfmt %v %v printed (status %d, want %d)\n%q\nwant the references in walk order:\n%q", flags, targets, pst, wantP, clip(string(po), 800), clip(string(wantPlain), 800))
	}
	if after := snapTree(t0); fmt.Sprint(after) != fmt.Sprint(before) {
		return fail("read-only-mode-wrote", "the tree changed during -l/-d/plain runs")
	}
	// -w and -l -w on copies
	for _, wmode := range [][]string{{"-w"}, {"-l", "-w"}} {
		tw, err := mk("tw"+strconv.Itoa(len(wmode)), true)
		if err != nil {
			return incon("write-tree", err)
		}
		wo, we, wst, err := p.shfmt(tw, nil, args(append(append([]string{}, wmode...), targets...)...)...)
		if err != nil {
			return incon("shfmt-w", err)
		}
		res.Evals++
		if wst != wantP {
			return fail("write-status-wrong", "shfmt %v exited %d, want %d; stderr: %s", wmode, wst, wantP, clip(string(we), 400))
		}
		if len(wmode) == 2 {
			var got []string
			if len(wo) > 0 {
				got = strings.Split(strings.TrimSuffix(string(wo), "\n"), "\n")
			}
			if d := sameSet(got, wantList); d != "" {
				return fail("list-write-lists-wrong", "shfmt -l -w listed the wrong files\n%s", d)
			}
		} else if len(wo) > 0 {
			return fail("write-printed", "shfmt -w wrote to stdout: %q", clip(string(wo), 300))
		}
		after := snapTree(tw)
		want := treeSnap{}
		for k, v := range before {
			want[k] = v
		}
		for _, w := range wantList {
			k := filepath.Clean(w)
			mode := before[k][:strings.IndexByte(before[k], 0)]
			want[k] = mode + "\x00" + string(refs[w].out)
		}
		for k, v := range want {
			if after[k] != v {
				return fail("write-result-wrong", "after shfmt %v, %s holds\n%q\nwant (mode, reference bytes)\n%q", wmode, k, clip(after[k], 600), clip(v, 600))
			}
		}
		for k := range after {
			if _, ok := want[k]; !ok {
				return fail("write-left-file-behind", "after shfmt %v there is a new file %s", wmode, k)
			}
		}
		if len(wmode) == 1 {
			// second -l / -d: nothing, except files whose reference is not a fixed point
			lo2, _, _, err := p.shfmt(tw, nil, args(append([]string{"-l"}, targets...)...)...)
			if err != nil {
				return incon("shfmt-l-2", err)
			}
			res.Evals++
			for _, l := range strings.Split(strings.TrimSuffix(string(lo2), "\n"), "\n") {
				if l == "" {
					continue
				}
				r := refs[l]
				if r.ok {
					if r2 := ref(tw, l, r.out); r2.ok && !bytes.Equal(r2.out, r.out) {
						res.Count("ood_reference_not_a_fixed_point(C02)", 1)
						continue
					}
				}
				return fail("list-after-write-not-empty", "after shfmt -w, shfmt -l still lists %s", l)
			}
		}
	}
	// EditorConfig equivalent to the flags
	if c.Uniform {
		tf, err := mk("tf", false)
		if err != nil {
			return incon("write-tree", err)
		}
		fa := append(append([]string{}, c.Flags...), "-l")
		flo, _, fst, err := p.shfmt(tf, nil, append(fa, targets...)...)
		if err != nil {
			return incon("shfmt-flags", err)
		}
		res.Evals++
		var got []string
		if len(flo) > 0 {
			got = strings.Split(strings.TrimSuffix(string(flo), "\n"), "\n")
		}
		if d := sameSet(got, wantList); d != "" || fst != wantStatus {
			return fail("editorconfig-differs-from-flags", "shfmt %v -l (no .editorconfig) lists other files than shfmt -l under the equivalent .editorconfig (status %d vs %d)\n%s", c.Flags, fst, wantStatus, d)
		}
		if _, _, _, err := p.shfmt(tf, nil, append(append(append([]string{}, c.Flags...), "-w"), targets...)...); err == nil {
			res.Evals++
			after := snapTree(tf)
			for _, w := range wantList {
				k := filepath.Clean(w)
				if got := after[k]; !strings.HasSuffix(got, "\x00"+string(refs[w].out)) {
					return fail("editorconfig-differs-from-flags", "shfmt %v -w wrote other bytes to %s than the equivalent .editorconfig gives:\n%q\nvs\n%q", c.Flags, k, clip(got, 500), clip(string(refs[w].out), 500))
				}
			}
		}
	}
	for _, t := range c.Tags {
		res.Count(t, 1)
	}
	for _, f := range flags {
		res.Count("flag:"+strings.SplitN(f, "=", 2)[0], 1)
	}
	if c.Explicit {
		res.Count("args:explicit", 1)
	} else {
		res.Count("args:walk", 1)
	}
	res.Hash = mon.HashOf(c)
	res.Nontriv = len(wantList) > 0 && len(walk)-len(wantList) > 0
	res.Sample = map[string]any{"flags": flags, "editorconfig": clip(c.EC, 120), "considered": len(walk), "listed": len(wantList), "unparseable": len(wantErr)}
	return res
}
