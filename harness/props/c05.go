package props

import (
	"bytes"
	"fmt"
	"math/rand/v2"
	"strconv"
	"strings"

	"mvdan.cc/sh/v3/fileutil"
	"mvdan.cc/sh/v3/syntax"
	"verif/mon"
	"verif/oracle"
)

// C05: formatting keeps every comment.
type c05 struct{ base }

func init() { mon.Register(&c05{}) }

func (*c05) ID() string { return "C05" }
func (*c05) Rule() string {
	return "a comment injector takes a parseable program (corpus, grammar, mutants), inserts '# c<k>' comments at line ends and at random node boundaries wherever the result still parses, and formats it under a fixed number of printer-option lattice points; the sequence of comment texts (right-trimmed) of the re-parsed output must equal the input's, or under Minify be exactly the first-line shebang. Non-trivial: the input has >= 1 comment; distinct: hash of (source, variant)."
}
func (*c05) NumCases(tier string) int               { return tierN(tier, 3000, 50000) }
func (*c05) MinNontrivial(tier string) int          { return tierN(tier, 1200, 20000) }
func (*c05) New() any                               { return &SynCase{} }
func (*c05) Shrink(p any, still func(any) bool) any { return shrinkSyn(p, still) }
func (*c05) Assumptions() []string {
	return []string{"an output that does not re-parse is C01's violation; here out of domain", "regions carved for known C01 findings are carved here too"}
}

func commentTexts(f *syntax.File) []string {
	cs := oracle.Comments(f)
	out := make([]string, len(cs))
	for i, c := range cs {
		out[i] = strings.TrimRight(c.Text, " \t\r\n\f\v")
	}
	return out
}

func (p *c05) Gen(i int, r *rand.Rand) any {
	c := p.synInputX(r, synMustParse, false, true, false)
	if c == nil {
		return nil
	}
	lang := c.lang()
	src := c.Src
	f, err := parseAs(src, lang, true)
	if err != nil {
		return nil
	}
	// candidate offsets (the positions the property names): the end of a line on
	// which a statement, case item or array element ends (trailing comment,
	// also right after a heredoc operator), and the start of any line
	// (own-line comment: before/after statements, inside case items, array
	// literals, if/else branches).
	var offs []int
	lineEnd := func(off int) int {
		for off < len(src) && src[off] != '\n' {
			off++
		}
		return off
	}
	syntax.Walk(f, func(n syntax.Node) bool {
		switch x := n.(type) {
		case *syntax.Stmt, *syntax.CaseItem, *syntax.ArrayElem:
			if e := n.End(); e.IsValid() && int(e.Offset()) <= len(src) {
				le := lineEnd(int(e.Offset()))
				if strings.TrimSpace(string(src[int(e.Offset()):le])) == "" || strings.TrimSpace(string(src[int(e.Offset()):le])) == ";" {
					offs = append(offs, le)
				}
			}
		case *syntax.Redirect:
			if (x.Op == syntax.Hdoc || x.Op == syntax.DashHdoc) && x.Word != nil {
				e := int(x.Word.End().Offset())
				if e <= len(src) {
					le := lineEnd(e)
					if strings.TrimSpace(string(src[e:le])) == "" {
						offs = append(offs, le)
					}
				}
			}
		}
		return true
	})
	for i, b := range src {
		if b == '\n' && i+1 <= len(src) {
			offs = append(offs, -(i+1)-1) // negative: own-line comment inserted at a line start
		}
	}
	offs = append(offs, -1) // start of file
	base0 := len(commentTexts(f))
	k := 0
	want := 1 + r.IntN(5)
	if r.IntN(6) == 0 && !bytes.HasPrefix(src, []byte("#!")) {
		src = append([]byte("#!/bin/sh\n"), src...)
		for i := range offs {
			if offs[i] >= 0 {
				offs[i] += 10
			} else {
				offs[i] -= 10
			}
		}
	}
	for try := 0; try < 12 && k < want && len(offs) > 0; try++ {
		o := offs[r.IntN(len(offs))]
		var cand []byte
		txt := " # c" + strconv.Itoa(k) + []string{"", " ", "\t", " trailing  "}[r.IntN(4)]
		if o >= 0 {
			cand = append(append(append([]byte{}, src[:o]...), txt...), src[o:]...)
		} else {
			at := -o - 1
			if at > len(src) {
				continue
			}
			cand = append(append(append([]byte{}, src[:at]...), (strings.TrimLeft(txt, " ")+"\n")...), src[at:]...)
		}
		f2, err := parseAs(cand, lang, true)
		if err != nil {
			continue
		}
		if len(commentTexts(f2)) != base0+k+1 {
			continue // the inserted text did not become exactly one more comment
		}
		// offsets after the insertion point shift
		ins := len(cand) - len(src)
		pos := o
		if o < 0 {
			pos = -o - 1
		}
		for i := range offs {
			if offs[i] >= 0 && offs[i] >= pos {
				offs[i] += ins
			} else if offs[i] < 0 && -offs[i]-1 > pos {
				offs[i] -= ins
			}
		}
		src = cand
		k++
	}
	c.Src = src
	c.SrcQ = strconv.Quote(string(src))
	n := 6
	if p.env.Tier == "thorough" {
		n = 14
	}
	c.Opts = LatticePoints(r, n, true, false)
	return c
}

func (p *c05) Run(payload any) mon.Result {
	c := payload.(*SynCase)
	lang := c.lang()
	var res mon.Result
	f0, err := parseAs(c.Src, lang, true)
	if err != nil {
		return mon.Result{Verdict: mon.OutOfDomain, Reason: "does-not-parse"}
	}
	if bytes.Contains(c.Src, []byte("\\\r")) && p.env.Findings.Active("C01-backslash-cr") {
		return mon.Result{Verdict: mon.OutOfDomain, Reason: "carved:C01-backslash-cr"}
	}
	want := commentTexts(f0)
	res.Hash = mon.HashOf(c.Src, c.Lang)
	res.Nontriv = len(want) > 0
	res.Count("source:"+c.Source, 1)
	res.Count("lang:"+c.Lang, 1)
	res.Count("comments_in_inputs", len(want))
	res.Evals = 0
	shebang := ""
	if len(f0.Stmts) >= 0 {
		// the comment that is a shebang on the first line at column 1
		syntax.Walk(f0, func(n syntax.Node) bool {
			if cm, ok := n.(*syntax.Comment); ok && cm.Hash.Line() == 1 && cm.Hash.Col() == 1 && fileutil.Shebang([]byte("#"+cm.Text)) != "" {
				shebang = strings.TrimRight(cm.Text, " \t\r\n\f\v")
			}
			return true
		})
	}
	for _, o := range c.Opts {
		if o.Minify && o.SingleLine {
			continue
		}
		res.Evals++
		res.Count("opts:"+o.String(), 1)
		f, _ := parseAs(c.Src, lang, true)
		if o.Simplify {
			syntax.Simplify(f)
		}
		if id := printerCarve(p.env.Findings, f, o); id != "" {
			res.Count("carved:"+id, 1)
			continue
		}
		if id := commentCarve(p.env.Findings, f0, o); id != "" {
			res.Count("carved:"+id, 1)
			continue
		}
		out, perr := printWith(o, f)
		if perr != nil {
			res.Count("c01-territory:print-error", 1)
			continue
		}
		f2, err := parseAs(out, lang, true)
		if err != nil {
			res.Count("c01-territory:reparse", 1)
			continue
		}
		got := commentTexts(f2)
		exp := want
		if o.Minify {
			exp = nil
			if shebang != "" {
				exp = []string{shebang}
			}
			res.Count("minify_cases", 1)
		}
		if strings.Join(got, "\x00") != strings.Join(exp, "\x00") || len(got) != len(exp) {
			res.Fail("comments-changed", fmt.Sprintf("opts=%s lang=%s\nsrc=%s\nout=%q\nwant comments %q\ngot  comments %q", o, c.Lang, c.SrcQ, out, exp, got))
			return res
		}
	}
	res.Sample = map[string]any{"src": c.SrcQ, "lang": c.Lang, "comments": want}
	return res
}

// commentCarve names the known-finding region of C05 a (tree, options) pair falls in.
func commentCarve(fs *mon.Findings, f *syntax.File, o POpts) string {
	id := ""
	hit := func(name string) {
		if id == "" && fs.Active(name) {
			id = name
		}
	}
	comments := oracle.Comments(f)
	var stack []syntax.Node
	syntax.Walk(f, func(n syntax.Node) bool {
		if n == nil {
			stack = stack[:len(stack)-1]
			return true
		}
		var parent syntax.Node
		if len(stack) > 0 {
			parent = stack[len(stack)-1]
		}
		stack = append(stack, n)
		switch x := n.(type) {
		case *syntax.BinaryCmd:
			if o.SingleLine && (len(x.X.Comments) > 0 || len(x.Y.Comments) > 0) {
				hit("C05-singleline-comment-in-binary")
			}
			if len(x.X.Comments) > 0 || len(x.Y.Comments) > 0 {
				for _, anc := range stack {
					switch anc.(type) {
					case *syntax.ProcSubst, *syntax.CmdSubst:
						hit("C05-comment-in-binary-in-procsubst")
					}
				}
			}
		case *syntax.ForClause:
			inBinary := false
			if len(stack) >= 3 {
				_, inBinary = stack[len(stack)-3].(*syntax.BinaryCmd)
			}
			_ = inBinary
			if x.Loop != nil {
				for _, c := range comments {
					if c.Hash.After(x.Loop.Pos()) && c.Hash.Line() <= x.DoPos.Line() {
						hit("C05-comment-before-do")
					}
				}
			}
		case *syntax.TestClause:
			for _, c := range comments {
				if c.Hash.After(x.Left) && x.Right.After(c.Hash) {
					hit("C05-comment-inside-test-clause")
				}
			}
		case *syntax.CmdSubst:
			// a comment inside a substitution that sits in a redirection or an
			// argument, together with a comment after the word
			for _, c := range comments {
				if c.Hash.After(x.Left) && x.Right.After(c.Hash) {
					for _, c2 := range comments {
						if c2.Hash.After(x.Right) && (c2.Hash.Line() == x.Right.Line() || inHeredocBody(stack)) {
							hit("C05-comment-inside-a-substitution-and-after-its-word")
						}
					}
				}
			}
			if o.Simplify && len(x.Stmts) == 1 {
				if _, ok := x.Stmts[0].Cmd.(*syntax.Subshell); ok {
					for _, c := range comments {
						if c.Hash.After(x.Left) && x.Right.After(c.Hash) {
							hit("C05-simplify-nested-subshell-comment")
						}
					}
				}
			}
		case *syntax.Subshell:
			if o.Simplify && len(x.Stmts) == 1 {
				if inner, ok := x.Stmts[0].Cmd.(*syntax.Subshell); ok {
					_ = inner
					for _, c := range comments {
						if c.Hash.After(x.Lparen) && x.Rparen.After(c.Hash) {
							hit("C05-simplify-nested-subshell-comment")
						}
					}
				}
			}
		case *syntax.Stmt:
			for _, r := range x.Redirs {
				if r.Op != syntax.Hdoc && r.Op != syntax.DashHdoc {
					continue
				}
				plain := false
				switch x.Cmd.(type) {
				case *syntax.CallExpr, nil:
					plain = true
				}
				switch parent.(type) {
				case *syntax.BinaryCmd, *syntax.TimeClause, *syntax.CoprocClause, *syntax.FuncDecl:
					plain = false
				}
				if plain {
					continue
				}
				for _, c := range comments {
					if c.Hash.Line() == r.OpPos.Line() && c.Hash.After(r.OpPos) {
						hit("C05-heredoc-line-comment-nested")
					}
				}
			}
		}
		return true
	})
	return id
}

// inHeredocBody reports whether the innermost enclosing redirection of the node
// stack holds the node in its here-document body.
func inHeredocBody(stack []syntax.Node) bool {
	for i := len(stack) - 1; i >= 0; i-- {
		if r, ok := stack[i].(*syntax.Redirect); ok && r.Hdoc != nil {
			for j := i + 1; j < len(stack); j++ {
				if stack[j] == syntax.Node(r.Hdoc) {
					return true
				}
			}
		}
	}
	return false
}
