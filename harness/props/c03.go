package props

import (
	"bytes"
	"fmt"
	"math/rand/v2"
	"strings"
	"time"

	"mvdan.cc/sh/v3/syntax"
	"verif/gen"
	"verif/mon"
	"verif/oracle"
)

// C03: formatting never changes what a script does.
type c03 struct {
	base
	repoProgs []gen.InterpCase
}

func init() { mon.Register(&c03{}) }

func (*c03) ID() string { return "C03" }
func (*c03) Rule() string {
	return "runnable programs (the runnable generator over bash features, plus the repo's safe deterministic runTests programs) are parsed with the Bash variant and printed under a handful of printer option points (default, Indent, BinaryNextLine, SwitchCaseIndent+SpaceRedirects+FunctionNextLine, SingleLine, Minify with Simplify as shfmt -mn does, random lattice points; no KeepPadding); the original and each formatted text are run by interp.Runner and by bash 5.2 in fresh sealed scratch directories. Oracle: interp(original)==interp(formatted) and bash(original)==bash(formatted) on stdout bytes and exit status; interp is never compared with bash here. Inputs ending in a lone backslash are excluded. Non-trivial: the formatted text differs from the original; distinct: hash of (source, options)."
}
func (*c03) NumCases(tier string) int      { return tierN(tier, 260, 4000) }
func (*c03) MinNontrivial(tier string) int { return tierN(tier, 150, 2000) }
func (*c03) New() any                      { return &ProgCase{} }
func (*c03) CaseTimeout() time.Duration    { return 300 * time.Second }
func (*c03) Assumptions() []string {
	return []string{"bash 5.2.15 stands in for bash", "stderr is not compared", "a formatted text that no longer parses is C01's violation and is counted out of domain here"}
}

func (p *c03) Init(env *mon.Env) error {
	if err := p.base.Init(env); err != nil {
		return err
	}
	p.repoProgs = p.interpCorpus()
	return nil
}

var c03Fixed = []POpts{
	{},
	{Indent: 2},
	{BinaryNextLine: true},
	{Indent: 4, SwitchCaseIndent: true, SpaceRedirects: true, FunctionNextLine: true},
	{SingleLine: true},
	{Minify: true, Simplify: true},
}

func (p *c03) Gen(i int, r *rand.Rand) any {
	var c *ProgCase
	if r.IntN(5) == 0 && len(p.repoProgs) > 0 {
		ic := p.repoProgs[r.IntN(len(p.repoProgs))]
		c = &ProgCase{Src: ic.In, Source: "repo"}
	} else {
		src, tags := gen.RunProgram(r, gen.RunOpts{})
		if r.IntN(3) == 0 {
			src = gen.Relayout(r, src)
		}
		c = &ProgCase{Src: src, Tags: tags, Source: "generated"}
	}
	n := 4
	if p.env.Tier == "thorough" {
		n = 7
	}
	off := r.IntN(len(c03Fixed))
	for k := 0; k < n; k++ {
		if k < n-1 {
			c.Opts = append(c.Opts, c03Fixed[(off+k)%len(c03Fixed)])
			continue
		}
		o := LatticePoints(r, 4, false, false)[3]
		if o.Minify {
			o.Simplify = true
		}
		c.Opts = append(c.Opts, o)
	}
	return c
}

func (p *c03) Run(payload any) mon.Result {
	c := payload.(*ProgCase)
	var res mon.Result
	if endsInLoneBackslash([]byte(strings.TrimRight(c.Src, "\n"))) {
		return mon.Result{Verdict: mon.OutOfDomain, Reason: "lone-trailing-backslash"}
	}
	f, err := oracle.ParseBash([]byte(c.Src))
	if err != nil {
		return mon.Result{Verdict: mon.OutOfDomain, Reason: "does-not-parse"}
	}
	ib, err := p.inInterp(c.Src)
	if err != nil {
		return mon.Result{Verdict: mon.Inconclusive, Reason: "interp-run-failed", Detail: err.Error()}
	}
	bb, err := p.inShell("bash", c.Src)
	if err != nil {
		return mon.Result{Verdict: mon.Inconclusive, Reason: "bash-run-failed", Detail: err.Error()}
	}
	if ib.TimedOut || bb.TimedOut || ib.Panic != "" {
		return mon.Result{Verdict: mon.Inconclusive, Reason: "original-timeout-or-panic", Detail: c.Src}
	}
	res.Evals = 2
	nontriv := false
	if strings.Contains(c.Src, "LINENO") {
		return mon.Result{Verdict: mon.OutOfDomain, Reason: "program-prints-its-own-line-numbers"}
	}
	for _, o := range c.Opts {
		if o.Minify && strings.Contains(c.Src, "let ") && p.env.Findings.Active("C01-minify-let-operator") {
			res.Count("carved:C01-minify-let-operator", 1)
			continue
		}
		if o.SingleLine && p.env.Findings.Active("C03-singleline-parse-time-options") && (strings.Contains(c.Src, "extglob") || strings.Contains(c.Src, "alias ")) {
			res.Count("carved:C03-singleline-parse-time-options", 1)
			continue
		}
		// format a fresh parse each time: Simplify modifies the tree
		g, _ := oracle.ParseBash([]byte(c.Src))
		if o.Simplify {
			syntax.Simplify(g)
		}
		var buf bytes.Buffer
		if err := o.Printer().Print(&buf, g); err != nil {
			res.Count("print_error", 1)
			continue
		}
		out := buf.String()
		res.Count("opts:"+o.String(), 1)
		if out != c.Src {
			nontriv = true
		}
		if _, err := oracle.ParseBash([]byte(out)); err != nil {
			res.Count("formatted_does_not_parse(C01)", 1)
			continue
		}
		ia, err := p.inInterp(out)
		if err != nil {
			return mon.Result{Verdict: mon.Inconclusive, Reason: "interp-run-failed", Detail: err.Error()}
		}
		ba, err := p.inShell("bash", out)
		if err != nil {
			return mon.Result{Verdict: mon.Inconclusive, Reason: "bash-run-failed", Detail: err.Error()}
		}
		if ia.TimedOut || ba.TimedOut {
			return mon.Result{Verdict: mon.Inconclusive, Reason: "formatted-timeout", Detail: out}
		}
		res.Evals += 2
		if !ia.same(ib) {
			res.Fail("interp-behaviour-changed", fmt.Sprintf("opts=%s\noriginal:\n%s\nformatted:\n%s\n  interp(original):  %s\n  interp(formatted): %s", o, c.Src, out, ib, ia))
			c2 := *c
			c2.Opts = []POpts{o}
			res.Payload = &c2
			return res
		}
		if !ba.same(bb) {
			res.Fail("bash-behaviour-changed", fmt.Sprintf("opts=%s\noriginal:\n%s\nformatted:\n%s\n  bash(original):  %s\n  bash(formatted): %s", o, c.Src, out, bb, ba))
			c2 := *c
			c2.Opts = []POpts{o}
			res.Payload = &c2
			return res
		}
	}
	_ = f
	for _, t := range c.Tags {
		res.Count("feature:"+t, 1)
	}
	res.Count("source:"+c.Source, 1)
	res.Hash = mon.HashOf(c.Src, c.Opts)
	res.Nontriv = nontriv
	res.Sample = map[string]any{"source": c.Source, "src": clip(c.Src, 240), "opts": fmt.Sprint(c.Opts), "stdout": clip(bb.Stdout, 80), "status": bb.Status}
	return res
}

func (p *c03) Shrink(payload any, still func(any) bool) any { return shrinkProg(payload, still) }
