package props

import (
	"bytes"
	"fmt"
	"math/rand/v2"
	"os"
	"os/exec"
	"path/filepath"
	"regexp"
	"sort"
	"strings"
	"syscall"
	"time"

	"verif/mon"
	"verif/oracle"
)

// C35: shfmt -w replaces files atomically.
type c35 struct{ base }

func init() { mon.Register(&c35{}) }

type KillCase struct {
	Lines   int    `json:"lines"` // size of the file in generated lines
	Mode    uint32 `json:"mode"`
	Subdir  bool   `json:"subdir,omitempty"`
	NameLen int    `json:"name_len"` // length of the file's base name
	TmpDir  string `json:"tmpdir"`   // same-fs | missing
	EC      bool   `json:"editorconfig,omitempty"`
	Kind    string `json:"kind"` // regular | symlink-arg | fifo-arg | walk
	All     bool   `json:"inject_all_syscalls,omitempty"`
	Seed    uint64 `json:"content_seed"`
}

func (*c35) ID() string { return "C35" }
func (*c35) Rule() string {
	return "the built shfmt binary runs 'shfmt -w <target>' under strace with SIGKILL injected at the entry of the k-th call (per thread) of one system call at a time out of {openat, read, write, pwrite64, fchmod, fchmodat, fsync, fdatasync, close, renameat, renameat2, rename, unlinkat, linkat, ftruncate, newfstatat, fstat} for k = 1, 2, ... until a run with that injection completes unkilled (thorough: also every k over all system calls together); a fresh copy of the scenario directory per run. Scenarios: files of 1 line, ~5 KiB and ~70 KiB needing reformatting, modes 0600/0644/0755/0444/0640/0666/0777/0400, in the working directory or a subdirectory, base names of ordinary length and of 236-255 bytes, TMPDIR on the same file system or missing, with or without an .editorconfig; targets given as a regular file, as a symlink argument, as a FIFO argument, or found by walking a directory that also holds a symlink and a FIFO. Oracle after every run: the file holds exactly its original bytes or exactly the formatted bytes (reference: plain shfmt on the same file), its permission bits are unchanged, symlinks and FIFOs are still what they were with the link target unchanged; after a run that was not killed: status 0 means the file holds the formatted bytes, and the directory and TMPDIR list exactly the original entries. The evidence counts the (system call, path class) boundaries at which a kill landed. Non-trivial: at least one kill landed on a call naming the target or its temporary file; distinct: hash of the scenario."
}
func (*c35) NumCases(tier string) int      { return tierN(tier, 16, 200) }
func (*c35) MinNontrivial(tier string) int { return tierN(tier, 8, 90) }
func (*c35) New() any                      { return &KillCase{} }
func (*c35) CaseTimeout() time.Duration    { return 1200 * time.Second }
func (*c35) Assumptions() []string {
	return []string{"strace's when=k counts calls per thread, so k enumerates legitimate crash points without being a global call index; the evidence lists which boundaries were hit", "durability across power loss (what survives without fsync) is not observable by killing a process and is not claimed"}
}

var c35Syscalls = []string{"openat", "read", "write", "pwrite64", "fchmod", "fchmodat", "fsync", "fdatasync", "close", "renameat", "renameat2", "rename", "unlinkat", "linkat", "ftruncate", "newfstatat", "fstat"}

func (p *c35) Gen(i int, r *rand.Rand) any {
	c := &KillCase{
		Lines:   []int{1, 1, 150, 150, 2200}[r.IntN(5)],
		Mode:    []uint32{0o600, 0o644, 0o755, 0o444, 0o640, 0o666, 0o777, 0o400}[r.IntN(8)],
		Subdir:  r.IntN(3) == 0,
		NameLen: []int{6, 6, 6, 40, 236, 245, 255}[r.IntN(7)],
		TmpDir:  []string{"same-fs", "missing"}[r.IntN(2)],
		EC:      r.IntN(3) == 0,
		Kind:    []string{"regular", "regular", "regular", "regular", "symlink-arg", "fifo-arg", "walk"}[r.IntN(7)],
		All:     p.env.Tier == "thorough" && r.IntN(2) == 0,
		Seed:    r.Uint64(),
	}
	// the first scenarios are fixed, so that every quick run has the basic shapes
	switch i {
	case 0:
		c.Lines, c.Mode, c.Subdir, c.NameLen, c.TmpDir, c.EC, c.Kind = 1, 0o666, false, 6, "same-fs", false, "regular"
	case 1:
		c.Lines, c.Mode, c.Subdir, c.NameLen, c.TmpDir, c.EC, c.Kind = 2200, 0o755, true, 6, "missing", true, "regular"
	case 2:
		c.Lines, c.Mode, c.Subdir, c.NameLen, c.TmpDir, c.EC, c.Kind = 150, 0o444, false, 250, "missing", false, "regular"
	case 3:
		c.Lines, c.Mode, c.Subdir, c.NameLen, c.TmpDir, c.EC, c.Kind = 150, 0o600, false, 6, "same-fs", false, "symlink-arg"
	case 4:
		c.Lines, c.Mode, c.Subdir, c.NameLen, c.TmpDir, c.EC, c.Kind = 150, 0o644, false, 6, "missing", false, "walk"
	case 5:
		c.Lines, c.Mode, c.Subdir, c.NameLen, c.TmpDir, c.EC, c.Kind = 2200, 0o666, false, 240, "same-fs", false, "regular"
	}
	if c.Kind != "regular" && c.NameLen > 200 {
		c.NameLen = 6
	}
	return c
}

func c35Content(c *KillCase) []byte {
	r := rand.New(rand.NewPCG(c.Seed, 35))
	var b bytes.Buffer
	b.WriteString("#!/bin/sh\n")
	forms := []string{"echo   %d  'two  spaces'\n", "if   [ $x -gt %d ];then\necho yes\nfi\n", "foo(){\n    bar %d   ;}\n", "a=%d   b=2   cmd >out   2>&1\n", "case $v in\na) echo %d;;\nesac\n"}
	for i := 0; i < c.Lines; i++ {
		fmt.Fprintf(&b, forms[r.IntN(len(forms))], r.IntN(100000))
	}
	return b.Bytes()
}

type c35Scn struct {
	dir, tmp string
	target   string // argument given to shfmt
	file     string // the regular file whose bytes are watched (relative to dir)
	orig     []byte
}

func (p *c35) setup(c *KillCase, root string, content []byte) (*c35Scn, error) {
	s := &c35Scn{dir: filepath.Join(root, "w"), tmp: filepath.Join(root, "tmp"), orig: content}
	if err := os.MkdirAll(s.dir, 0o755); err != nil {
		return nil, err
	}
	if c.TmpDir == "same-fs" {
		if err := os.MkdirAll(s.tmp, 0o755); err != nil {
			return nil, err
		}
	}
	name := "s.sh"
	if c.NameLen > 4 {
		name = strings.Repeat("n", c.NameLen-3) + ".sh"
	}
	sub := ""
	if c.Subdir || c.Kind == "walk" {
		sub = "sub"
		os.MkdirAll(filepath.Join(s.dir, sub), 0o755)
	}
	s.file = filepath.Join(sub, name)
	full := filepath.Join(s.dir, s.file)
	if err := os.WriteFile(full, content, 0o600); err != nil {
		return nil, err
	}
	if err := os.Chmod(full, os.FileMode(c.Mode)); err != nil {
		return nil, err
	}
	if c.EC {
		os.WriteFile(filepath.Join(s.dir, ".editorconfig"), []byte("root = true\n[*]\nindent_style = space\nindent_size = 3\nswitch_case_indent = true\n"), 0o644)
	}
	s.target = s.file
	switch c.Kind {
	case "symlink-arg":
		if err := os.Symlink(name, filepath.Join(s.dir, sub, "link.sh")); err != nil {
			return nil, err
		}
		s.target = filepath.Join(sub, "link.sh")
	case "fifo-arg":
		if err := syscall.Mkfifo(filepath.Join(s.dir, sub, "pipe.sh"), 0o644); err != nil {
			return nil, err
		}
		s.target = filepath.Join(sub, "pipe.sh")
	case "walk":
		os.Symlink(name, filepath.Join(s.dir, sub, "link.sh"))
		syscall.Mkfifo(filepath.Join(s.dir, sub, "pipe.sh"), 0o644)
		s.target = sub
	}
	return s, nil
}

// listing describes every entry below dir: kind, permission bits, link target.
func c35Listing(dir string) string {
	var out []string
	filepath.Walk(dir, func(p string, info os.FileInfo, err error) error {
		if err != nil || p == dir {
			return nil
		}
		rel, _ := filepath.Rel(dir, p)
		switch {
		case info.Mode()&os.ModeSymlink != 0:
			t, _ := os.Readlink(p)
			out = append(out, fmt.Sprintf("%s -> %s", rel, t))
		case info.Mode()&os.ModeNamedPipe != 0:
			out = append(out, rel+" fifo")
		case info.IsDir():
			out = append(out, rel+"/")
		default:
			out = append(out, fmt.Sprintf("%s %o", rel, info.Mode().Perm()))
		}
		return nil
	})
	sort.Strings(out)
	return strings.Join(out, "\n")
}

var c35TempRe = regexp.MustCompile(`"[^"]*/\.[^"/]*\.sh\d+"`)

func (p *c35) Run(payload any) mon.Result {
	c := payload.(*KillCase)
	var res mon.Result
	root, err := oracle.ScratchDir(p.env.Build, "c35")
	if err != nil {
		return mon.Result{Verdict: mon.Inconclusive, Reason: "scratch-dir"}
	}
	defer os.RemoveAll(root)
	content := c35Content(c)
	shfmt := filepath.Join(p.env.Build, "shfmt")
	env := func(s *c35Scn) []string {
		return []string{"HOME=" + s.dir, "PATH=/nonexistent", "TMPDIR=" + s.tmp, "NO_COLOR=1"}
	}
	// reference: formatted bytes
	s0, err := p.setup(c, filepath.Join(root, "ref"), content)
	if err != nil {
		return mon.Result{Verdict: mon.Inconclusive, Reason: "setup", Detail: err.Error()}
	}
	cmd := exec.Command(shfmt, s0.file)
	cmd.Dir, cmd.Env = s0.dir, env(s0)
	formatted, err := cmd.Output()
	if err != nil {
		return mon.Result{Verdict: mon.Inconclusive, Reason: "reference-run-failed", Detail: err.Error()}
	}
	if bytes.Equal(formatted, content) {
		return mon.Result{Verdict: mon.OutOfDomain, Reason: "already-formatted"}
	}
	listing0 := c35Listing(s0.dir)
	fail := func(reason, format string, a ...any) mon.Result {
		res.Fail(reason, fmt.Sprintf("scenario %+v\n", *c)+fmt.Sprintf(format, a...))
		return res
	}
	hitTarget := false
	run := 0
	one := func(inject string, k int) (killed bool, r *mon.Result) {
		run++
		s, err := p.setup(c, filepath.Join(root, fmt.Sprintf("r%d", run)), content)
		if err != nil {
			rr := mon.Result{Verdict: mon.Inconclusive, Reason: "setup", Detail: err.Error()}
			return false, &rr
		}
		defer os.RemoveAll(filepath.Dir(s.dir))
		trace := filepath.Join(filepath.Dir(s.dir), "trace")
		args := []string{"-f", "-s", "300", "-o", trace}
		if inject == "all" {
			args = append(args, "-e", fmt.Sprintf("inject=all:signal=KILL:when=%d", k))
		} else {
			args = append(args, "-e", "trace="+inject, "-e", fmt.Sprintf("inject=%s:signal=KILL:when=%d", inject, k))
		}
		args = append(args, shfmt, "-w", s.target)
		cmd := exec.Command("strace", args...)
		cmd.Dir, cmd.Env = s.dir, env(s)
		var se bytes.Buffer
		cmd.Stderr = &se
		done := make(chan error, 1)
		if err := cmd.Start(); err != nil {
			rr := mon.Result{Verdict: mon.Inconclusive, Reason: "strace-start", Detail: err.Error()}
			return false, &rr
		}
		go func() { done <- cmd.Wait() }()
		var werr error
		select {
		case werr = <-done:
		case <-time.After(60 * time.Second):
			cmd.Process.Kill()
			rr := mon.Result{Verdict: mon.Inconclusive, Reason: "strace-timeout", Detail: fmt.Sprintf("inject=%s when=%d", inject, k)}
			return false, &rr
		}
		res.Evals++
		tb, _ := os.ReadFile(trace)
		killed = bytes.Contains(tb, []byte("+++ killed by SIGKILL +++"))
		status := 0
		if ee, ok := werr.(*exec.ExitError); ok {
			status = ee.ExitCode()
		}
		where := "not-killed"
		if killed {
			// the call at whose entry the kill landed is the one left without a result
			where = "unknown"
			for _, l := range strings.Split(string(tb), "\n") {
				if strings.HasSuffix(l, "= ?") || strings.Contains(l, "<unfinished ...>") {
					f := strings.Fields(l)
					if len(f) >= 2 {
						name := f[1]
						if j := strings.IndexByte(name, '('); j > 0 {
							name = name[:j]
						}
						class := "other"
						base := filepath.Base(s.file)
						switch {
						case c35TempRe.MatchString(l) || strings.Contains(l, "\"."+base) || strings.Contains(l, "/."+base):
							class = "temp-file"
						case strings.Contains(l, base):
							class = "target"
						}
						if class != "other" {
							hitTarget = true
						}
						where = name + ":" + class
					}
				}
			}
			res.Count("kill@"+where, 1)
		} else {
			res.Count("completed-runs", 1)
		}
		// observe
		full := filepath.Join(s.dir, s.file)
		info, err := os.Lstat(full)
		if err != nil {
			rr := fail("file-gone", "inject=%s when=%d (%s): %v\nlisting:\n%s", inject, k, where, err, c35Listing(s.dir))
			return killed, &rr
		}
		if !info.Mode().IsRegular() {
			rr := fail("file-kind-changed", "inject=%s when=%d (%s): %s is now %v", inject, k, where, s.file, info.Mode())
			return killed, &rr
		}
		got, _ := os.ReadFile(full)
		isOrig, isFmt := bytes.Equal(got, content), bytes.Equal(got, formatted)
		if !isOrig && !isFmt {
			rr := fail("torn-file", "inject=%s when=%d, kill landed at %s: the file holds %d bytes, neither the %d original nor the %d formatted ones; first bytes %q", inject, k, where, len(got), len(content), len(formatted), clip(string(got), 120))
			return killed, &rr
		}
		if info.Mode().Perm() != os.FileMode(c.Mode) {
			rr := fail("mode-changed", "inject=%s when=%d, kill landed at %s: permission bits are %o, were %o (file holds the %s bytes)", inject, k, where, info.Mode().Perm(), c.Mode, map[bool]string{true: "formatted", false: "original"}[isFmt])
			return killed, &rr
		}
		if isFmt {
			res.Count("observed:formatted", 1)
		} else {
			res.Count("observed:original", 1)
		}
		// non-regular entries keep their kind and link target in every run
		l := c35Listing(s.dir)
		for _, line := range strings.Split(listing0, "\n") {
			if strings.Contains(line, " -> ") || strings.HasSuffix(line, " fifo") {
				if !strings.Contains("\n"+l+"\n", "\n"+line+"\n") {
					rr := fail("non-regular-file-replaced", "inject=%s when=%d (%s): entry %q is gone or changed; listing:\n%s", inject, k, where, line, l)
					return killed, &rr
				}
			}
		}
		if !killed {
			switch c.Kind {
			case "regular", "walk":
				if status == 0 && !isFmt {
					rr := fail("completed-without-formatting", "inject=%s when=%d: shfmt -w exited 0 and the file is unchanged", inject, k)
					return killed, &rr
				}
			case "symlink-arg":
				if status == 0 || isFmt {
					// the code documents a refusal for symlinks
					res.Count("symlink-arg-formatted-through-link", 1)
				}
			}
			if l != listing0 {
				rr := fail("completed-run-left-files", "inject=%s when=%d: shfmt -w exited %d; directory listing differs\n--- before\n%s\n--- after\n%s", inject, k, status, listing0, l)
				return killed, &rr
			}
			if c.TmpDir == "same-fs" {
				if tl := c35Listing(s.tmp); tl != "" {
					rr := fail("completed-run-left-temp-files", "inject=%s when=%d: TMPDIR holds\n%s", inject, k, tl)
					return killed, &rr
				}
			}
			res.Count(fmt.Sprintf("completed-status:%d", status), 1)
		}
		return killed, nil
	}
	sets := c35Syscalls
	if c.All {
		sets = []string{"all"}
	}
	for _, sc := range sets {
		max := 400
		if sc == "all" {
			max = 3000
		}
		for k := 1; k <= max; k++ {
			killed, r := one(sc, k)
			if r != nil {
				return *r
			}
			if !killed {
				break
			}
		}
	}
	res.Count("kind:"+c.Kind, 1)
	res.Count(fmt.Sprintf("mode:%o", c.Mode), 1)
	res.Count(fmt.Sprintf("lines:%d", c.Lines), 1)
	res.Count("tmpdir:"+c.TmpDir, 1)
	if c.NameLen > 200 {
		res.Count("name:long", 1)
	}
	res.Hash = mon.HashOf(c)
	res.Nontriv = hitTarget
	res.Sample = map[string]any{"scenario": fmt.Sprintf("%+v", *c), "runs": run}
	return res
}
