package props

import (
	"fmt"
	"math/rand/v2"
	"os"
	"os/exec"
	"path/filepath"
	"regexp"
	"sort"
	"strings"
	"time"

	"mvdan.cc/sh/v3/syntax"
	"verif/mon"
	"verif/oracle"
)

// C12: parser acceptance agrees with the real shells.
type c12 struct {
	base
	documented map[string]map[string]bool // variant -> normalised message -> flipped in the repo's tests
}

func init() { mon.Register(&c12{}) }

type AcceptBatch struct {
	Progs []string `json:"programs"`
}

func (*c12) ID() string { return "C12" }
func (*c12) Rule() string {
	return "programs from the core grammar both shells share (simple commands with assignments and redirections, ; & && || | and ! lists, { } and ( ) groups, if/elif/else, while/until, for with and without 'in', case with every item ending and with a last item lacking ';;', functions with group and subshell bodies, here-documents, single and double quotes, $x ${x} $( ) and backquotes, comments, newlines against semicolons), and every program again after one token-level mutation (insert, delete, swap, duplicate over the alphabet ; & && || | ( ) { } ! if then elif else fi while until do done for in case esac ;; newline WORD 'q' \"q\" < > >> <<E). 30 per batch; nothing is executed: 'bash -n' and 'dash -n' read each program from a file. Oracle: syntax.Parser in Bash mode accepts exactly what bash -n accepts (exit status 0 and no non-warning line on stderr) and in POSIX mode exactly what dash -n accepts, apart from divergences the repository's own tests mark as intentional (error cases carrying flipConfirm for that variant, matched by our error message with quoted tokens abstracted). Non-trivial: the batch held at least one program each shell rejects and one it accepts; distinct: hash of the batch."
}
func (*c12) NumCases(tier string) int      { return tierN(tier, 80, 1600) }
func (*c12) MinNontrivial(tier string) int { return tierN(tier, 50, 1100) }
func (*c12) New() any                      { return &AcceptBatch{} }
func (*c12) CaseTimeout() time.Duration    { return 300 * time.Second }
func (*c12) Assumptions() []string {
	return []string{"bash 5.2.15 and dash 0.5.12 with -n are ground truth; warnings on stderr are ignored as the repository's confirmParse does", "constructs bash parses lazily or -n waves through (arithmetic, [[ ]], let, extglob) are outside the core grammar and not generated"}
}

var (
	c12ErrCaseRe = regexp.MustCompile("(?s)errCase\\(\\n(.*?)\\n\\t\\),")
	c12LangErrRe = regexp.MustCompile("langErr\\((?:\"((?:[^\"\\\\]|\\\\.)*)\"|`([^`]*)`)")
	c12PosRe     = regexp.MustCompile(`^\d+:\d+: `)
	c12TokRe     = regexp.MustCompile("`[^`]*`|\"[^\"]*\"")
)

func c12Norm(msg string) string {
	msg = c12PosRe.ReplaceAllString(msg, "")
	return c12TokRe.ReplaceAllString(msg, "X")
}

func (p *c12) Init(env *mon.Env) error {
	if err := p.base.Init(env); err != nil {
		return err
	}
	p.documented = map[string]map[string]bool{"bash": {}, "posix": {}}
	src, err := os.ReadFile(filepath.Join(env.Repo, "syntax", "parser_test.go"))
	if err != nil {
		return err
	}
	for _, m := range c12ErrCaseRe.FindAllStringSubmatch(string(src), -1) {
		body := m[1]
		var langs []string
		switch {
		case strings.Contains(body, "flipConfirmAll"), strings.Contains(body, "flipConfirmUnclosedHeredoc"):
			langs = []string{"bash", "posix"}
		case strings.Contains(body, "flipConfirm("):
			arg := body[strings.Index(body, "flipConfirm("):]
			arg = arg[:strings.Index(arg, ")")]
			if strings.Contains(arg, "LangBash") {
				langs = append(langs, "bash")
			}
			if strings.Contains(arg, "LangPOSIX") {
				langs = append(langs, "posix")
			}
		}
		for _, le := range c12LangErrRe.FindAllStringSubmatch(body, -1) {
			msg := le[1] + le[2]
			for _, l := range langs {
				p.documented[l][c12Norm(msg)] = true
			}
		}
	}
	return nil
}

type c12gen struct {
	r    *rand.Rand
	toks []string
	hd   int
	pend []string
}

func (g *c12gen) emit(t ...string) { g.toks = append(g.toks, t...) }
func (g *c12gen) nl() {
	g.emit("\n")
	for _, h := range g.pend {
		g.emit(h)
	}
	g.pend = nil
}
func (g *c12gen) word() string {
	return []string{"a", "b", "foo", "x=1", "'q r'", "\"d $x\"", "$x", "${y}", "$(echo s)", "`echo t`", "a\\ b", "-n", "1", "x.y", "#no", "\"\"", "a=b", "{", "}x"}[g.r.IntN(19)]
}
func (g *c12gen) sep() {
	if g.r.IntN(3) == 0 {
		g.nl()
	} else {
		g.emit(";")
	}
}
func (g *c12gen) simple() {
	for n := g.r.IntN(2); n > 0; n-- {
		g.emit([]string{"v=1", "w=", "p=\"$q\""}[g.r.IntN(3)])
	}
	g.emit([]string{"echo", "cmd", "true", "f", ":", "x"}[g.r.IntN(6)])
	for n := g.r.IntN(3); n > 0; n-- {
		g.emit(g.word())
	}
	switch g.r.IntN(8) {
	case 0:
		g.emit(">", "out")
	case 1:
		g.emit("2>&1")
	case 2:
		g.emit("<", "in", ">>", "log")
	case 3:
		g.hd++
		d := fmt.Sprintf("E%d", g.hd)
		g.emit("<<" + d)
		g.pend = append(g.pend, "body $x\n"+d+"\n")
	}
}
func (g *c12gen) list(depth int) {
	n := 1 + g.r.IntN(2)
	for i := 0; i < n; i++ {
		if i > 0 {
			g.emit([]string{"&&", "||", "|", ";", "&"}[g.r.IntN(5)])
			if g.r.IntN(4) == 0 {
				g.nl()
			}
		}
		if g.r.IntN(8) == 0 {
			g.emit("!")
		}
		g.cmd(depth)
	}
}
func (g *c12gen) body(depth int) {
	g.list(depth)
	g.sep()
}
func (g *c12gen) cmd(depth int) {
	if depth <= 0 {
		g.simple()
		return
	}
	switch g.r.IntN(12) {
	case 0:
		g.emit("{")
		g.body(depth - 1)
		g.emit("}")
	case 1:
		g.emit("(")
		g.list(depth - 1)
		if g.r.IntN(3) == 0 {
			g.sep()
		}
		g.emit(")")
	case 2:
		g.emit("if")
		g.body(depth - 1)
		g.emit("then")
		g.body(depth - 1)
		if g.r.IntN(3) == 0 {
			g.emit("elif")
			g.body(depth - 1)
			g.emit("then")
			g.body(depth - 1)
		}
		if g.r.IntN(2) == 0 {
			g.emit("else")
			g.body(depth - 1)
		}
		g.emit("fi")
	case 3:
		g.emit([]string{"while", "until"}[g.r.IntN(2)])
		g.body(depth - 1)
		g.emit("do")
		g.body(depth - 1)
		g.emit("done")
	case 4:
		g.emit("for", "i")
		if g.r.IntN(3) > 0 {
			g.emit("in")
			for n := g.r.IntN(3); n > 0; n-- {
				g.emit(g.word())
			}
			g.sep()
		} else if g.r.IntN(2) == 0 {
			g.sep()
		} else {
			g.nl()
		}
		g.emit("do")
		g.body(depth - 1)
		g.emit("done")
	case 5:
		g.emit("case", g.word(), "in")
		if g.r.IntN(2) == 0 {
			g.nl()
		}
		items := g.r.IntN(3)
		for k := 0; k < items; k++ {
			if g.r.IntN(3) == 0 {
				g.emit("(")
			}
			g.emit([]string{"a", "b|c", "*", "x*", "'q'"}[g.r.IntN(5)] + ")")
			if g.r.IntN(5) > 0 {
				g.list(depth - 1)
			}
			last := k == items-1
			if last && g.r.IntN(3) == 0 {
				if g.r.IntN(2) == 0 {
					g.sep()
				}
			} else {
				g.emit(";;")
				if g.r.IntN(2) == 0 {
					g.nl()
				}
			}
		}
		g.emit("esac")
	case 6:
		g.emit("fn()")
		if g.r.IntN(3) == 0 {
			g.nl()
		}
		if g.r.IntN(3) == 0 {
			g.emit("(")
			g.list(depth - 1)
			g.emit(")")
		} else {
			g.emit("{")
			g.body(depth - 1)
			g.emit("}")
		}
	default:
		g.simple()
	}
	if g.r.IntN(10) == 0 {
		g.emit(">", "redir")
	}
}

func (g *c12gen) text() string {
	var sb strings.Builder
	for i, t := range g.toks {
		if i > 0 && t != "\n" && g.toks[i-1] != "\n" && !strings.HasSuffix(g.toks[i-1], "\n") {
			sb.WriteString(" ")
		}
		sb.WriteString(t)
	}
	for _, h := range g.pend {
		sb.WriteString("\n" + h)
	}
	s := sb.String()
	if !strings.HasSuffix(s, "\n") {
		s += "\n"
	}
	return s
}

var c12Alphabet = []string{";", "&", "&&", "||", "|", "(", ")", "{", "}", "!", "if", "then", "elif", "else", "fi", "while", "until", "do", "done", "for", "in", "case", "esac", ";;", "\n", "w", "'q'", "\"q\"", "<", ">", ">>", "fn()"}

func (p *c12) Gen(i int, r *rand.Rand) any {
	b := &AcceptBatch{}
	for k := 0; k < 30; k++ {
		g := &c12gen{r: r}
		n := 1 + r.IntN(3)
		for j := 0; j < n; j++ {
			g.list(1 + r.IntN(3))
			if j < n-1 || r.IntN(2) == 0 {
				g.sep()
			}
		}
		if k%3 > 0 && len(g.toks) > 0 {
			// one token-level mutation
			j := r.IntN(len(g.toks))
			switch r.IntN(4) {
			case 0:
				g.toks = append(g.toks[:j], g.toks[j+1:]...)
			case 1:
				t := c12Alphabet[r.IntN(len(c12Alphabet))]
				g.toks = append(g.toks[:j], append([]string{t}, g.toks[j:]...)...)
			case 2:
				if j+1 < len(g.toks) {
					g.toks[j], g.toks[j+1] = g.toks[j+1], g.toks[j]
				}
			default:
				g.toks[j] = c12Alphabet[r.IntN(len(c12Alphabet))]
			}
		}
		s := g.text()
		if strings.ContainsAny(s, "\x00") {
			continue
		}
		b.Progs = append(b.Progs, s)
	}
	return b
}

func shellAccepts(shell, file, dir string) (ok bool, msg string, err error) {
	sp, err := exec.LookPath(shell)
	if err != nil {
		return false, "", err
	}
	args := []string{"-n", file}
	if shell == "bash" {
		args = append([]string{"--norc", "--noprofile"}, args...)
	}
	cmd := exec.Command(sp, args...)
	cmd.Dir = dir
	cmd.Env = []string{"PATH=/nonexistent", "HOME=" + dir, "LC_ALL=C.UTF-8"}
	var se strings.Builder
	cmd.Stderr = &se
	done := make(chan error, 1)
	if err := cmd.Start(); err != nil {
		return false, "", err
	}
	go func() { done <- cmd.Wait() }()
	var werr error
	select {
	case werr = <-done:
	case <-time.After(20 * time.Second):
		cmd.Process.Kill()
		return false, "", fmt.Errorf("%s -n timed out", shell)
	}
	var lines []string
	for _, l := range strings.Split(se.String(), "\n") {
		l = strings.TrimSpace(l)
		if l == "" || strings.Contains(l, "warning:") {
			continue
		}
		lines = append(lines, l)
	}
	if werr == nil && len(lines) == 0 {
		return true, "", nil
	}
	if len(lines) > 0 {
		msg = lines[0]
		if j := strings.Index(msg, file); j >= 0 {
			msg = msg[j+len(file):]
		}
	}
	return false, msg, nil
}

func (p *c12) Run(payload any) mon.Result {
	b := payload.(*AcceptBatch)
	var res mon.Result
	dir, err := oracle.ScratchDir(p.env.Build, "c12")
	if err != nil {
		return mon.Result{Verdict: mon.Inconclusive, Reason: "scratch-dir"}
	}
	defer os.RemoveAll(dir)
	var first string
	sawAccept, sawReject := false, false
	for i, src := range b.Progs {
		file := filepath.Join(dir, fmt.Sprintf("p%d.sh", i))
		if err := os.WriteFile(file, []byte(src), 0o644); err != nil {
			return mon.Result{Verdict: mon.Inconclusive, Reason: "write"}
		}
		for _, v := range []struct {
			name, shell string
			lang        syntax.LangVariant
		}{{"bash", "bash", syntax.LangBash}, {"posix", "dash", syntax.LangPOSIX}} {
			shOK, shMsg, err := shellAccepts(v.shell, file, dir)
			if err != nil {
				return mon.Result{Verdict: mon.Inconclusive, Reason: "shell-run-failed", Detail: err.Error()}
			}
			_, perr := syntax.NewParser(syntax.Variant(v.lang)).Parse(strings.NewReader(src), "")
			res.Evals++
			if shOK {
				sawAccept = true
			} else {
				sawReject = true
			}
			switch {
			case shOK == (perr == nil):
				if shOK {
					res.Count(v.name+":both-accept", 1)
				} else {
					res.Count(v.name+":both-reject", 1)
				}
				continue
			case perr != nil:
				norm := c12Norm(perr.Error())
				if p.documented[v.name][norm] {
					res.Count(v.name+":documented-stricter:"+norm, 1)
					continue
				}
				if id := p.knownClass(v.name, "rejects", norm, src); id != "" {
					if !strings.HasPrefix(id, "ood:") {
						id = "known:" + id
					}
					res.Count(id, 1)
					continue
				}
				res.Count("violations:"+v.name+":we-reject:"+norm, 1)
				if res.Counters["violations:"+v.name+":we-reject:"+norm] <= 2 && len(res.Detail) < 6000 {
					res.Detail += fmt.Sprintf("[%s] %s accepts, the parser rejects (%v):\n%s\n", v.name, v.shell, perr, src)
				}
			default:
				cls := c12ShellClass(shMsg)
				if id := p.knownClass(v.name, "accepts", cls, src); id != "" {
					if !strings.HasPrefix(id, "ood:") {
						id = "known:" + id
					}
					res.Count(id, 1)
					continue
				}
				res.Count("violations:"+v.name+":we-accept:"+cls, 1)
				if res.Counters["violations:"+v.name+":we-accept:"+cls] <= 2 && len(res.Detail) < 6000 {
					res.Detail += fmt.Sprintf("[%s] the parser accepts, %s rejects (%s):\n%s\n", v.name, v.shell, shMsg, src)
				}
			}
			if res.Verdict != mon.Violated {
				res.Verdict, res.Reason = mon.Violated, "acceptance-differs"
				first = src
			}
		}
	}
	if res.Verdict == mon.Violated {
		res.Payload = &AcceptBatch{Progs: []string{first}}
		return res
	}
	res.Hash = mon.HashOf(b)
	res.Nontriv = sawAccept && sawReject
	res.Sample = map[string]any{"first": clip(b.Progs[0], 160)}
	return res
}

var c12NearRe = regexp.MustCompile("near unexpected token `([^']*)'|Syntax error: \"?([^\" ]*)\"? unexpected|unexpected (EOF|end of file)|Syntax error: (.*)")

// c12ShellClass abstracts a shell's complaint to the token it names.
func c12ShellClass(msg string) string {
	if m := c12NearRe.FindStringSubmatch(msg); m != nil {
		for _, g := range m[1:] {
			if g != "" {
				return "unexpected " + g
			}
		}
	}
	return "other"
}

// knownClass maps a divergence to a listed known finding or to an out-of-domain
// reason ("ood:..."), if any.
func (p *c12) knownClass(variant, dir, cls, src string) string {
	reserved := regexp.MustCompile(`^unexpected (in|else|elif|then|fi|do|done|esac|\})$`)
	act := func(id string) string {
		if p.env.Findings.Active(id) {
			return id
		}
		return ""
	}
	if dir == "accepts" {
		// did we take a reserved word for a command name?
		reservedCmd := false
		if f, err := syntax.NewParser(syntax.Variant(syntax.LangBash)).Parse(strings.NewReader(src), ""); err == nil {
			syntax.Walk(f, func(n syntax.Node) bool {
				if ce, ok := n.(*syntax.CallExpr); ok && len(ce.Args) > 0 {
					switch ce.Args[0].Lit() {
					case "in", "else", "elif", "then", "fi", "do", "done", "esac":
						reservedCmd = true
					}
				}
				return true
			})
		}
		fnBody := c12FnBodyRe.MatchString(src)
		switch {
		case reservedCmd || reserved.MatchString(cls) || (strings.Contains(cls, "word") && c12CloseNoSepRe.MatchString(src)):
			return act("C12-reserved-word-accepted-where-the-shells-reject-it")
		case c12IONumRe.MatchString(src) && (strings.Contains(cls, "2") || strings.Contains(cls, "redirection")):
			return act("C12-io-number-taken-for-a-redirection-target")
		case variant == "posix" && strings.Contains(cls, "Bad for loop variable"):
			return act("C12-for-loop-variable-that-is-not-a-name")
		case fnBody:
			return act("C12-function-body-that-is-not-a-compound-command")
		case variant == "posix" && strings.Contains(src, "<<") && strings.Contains(cls, "word"):
			// dash 0.5.12 loses its place when a pending here-document body follows the
			// newline inside a for or case header; bash and the parser read it fine
			return "ood:dash-here-document-inside-a-clause-header"
		}
		return ""
	}
	if c12RedirThenReservedRe.MatchString(src) {
		switch {
		case cls == "X can only be used in full statements", strings.HasPrefix(cls, "redirects before compound commands"), strings.HasPrefix(cls, "reached EOF without matching"), strings.Contains(cls, "must be followed by"), strings.Contains(cls, "can only be used"):
			return act("C12-reserved-word-still-recognised-after-a-leading-redirection")
		}
	}
	if variant == "bash" && cls == "X must be followed by a literal" && c12ForWordRe.MatchString(src) {
		return act("C12-for-loop-variable-that-is-not-a-name")
	}
	switch {
	case variant == "bash" && cls == "X cannot form a statement alone":
		return "ood:bash-5.2-accepts-a-lone-bang(the repository targets 5.3)"
	}
	return ""
}

var c12RedirThenReservedRe = regexp.MustCompile(`(<|>|>>|<<)[ ]*[^ \n;|()]+[ ]+([^ \n;&|()]+[ ]+)*(\{|!|if|while|until|for|case|then|do|fi|done|esac|elif|else|\})([ \n;]|$)`)
var c12ForWordRe = regexp.MustCompile("for[ ]+['\"$`]")
var c12CloseNoSepRe = regexp.MustCompile(`(\}|fi|done|esac)[ ]*(>>|>|<)[ ]*[^ \n;&|()]+[ ]+(done|\}|fi|esac|then|do|else|elif)([ \n;]|$)`)
var c12IONumRe = regexp.MustCompile(`(<|>|>>)[ ]+[0-9]+[<>]`)
var c12FnBodyRe = regexp.MustCompile(`fn\(\)[ \n]*([^{( \n]|$)`)

var _ = sort.Strings
