package props

import (
	"errors"
	"fmt"
	"math/rand/v2"
	"os"
	"path/filepath"
	"regexp"
	"sort"
	"strings"
	"time"

	"mvdan.cc/sh/v3/pattern"
	"verif/mon"
	"verif/oracle"
)

// C17: glob patterns match exactly what bash matches.
type c17 struct{ base }

func init() { mon.Register(&c17{}) }

type PatCase struct {
	Pat  string `json:"pat"`
	Mode uint   `json:"mode"`
}

type PatBatch struct {
	Cases []PatCase `json:"cases"`
}

func (*c17) ID() string { return "C17" }
func (*c17) Rule() string {
	return "patterns over the alphabet * ? [ ] ! ^ - \\ . / a b A 1 ( ) | @ + [:alpha:] [:digit:] [:upper:] (exhaustive for 1-3 symbols, structured and random up to 10 symbols), 40 per batch, each under one mode combination (none, EntireString, NoGlobCase, ExtendedOperators, Shortest, and EntireString|Filenames with NoGlobStar, GlobLeadingDot, ExtendedOperators, NoGlobCase added at random). Universe: every string of length 0-3 over {a b A . / - ]} plus up to three literal characters of the batch's patterns. Ground truth: for the modes without Filenames, one bash process evaluates 'case $s in $p)' for the whole pattern x universe matrix (extglob and nocasematch set per pattern; a match anywhere in the string is a match of some substring); for the Filenames modes, a backtracking reference matcher written from bash's rules, which is itself compared with bash on every non-Filenames pair of the run (a disagreement there is counted as a reference defect and bash wins). Oracle: Regexp returns an error only for patterns malformed by its documented notion (trailing backslash, reversed range, unknown or collating class) or containing !( (NegExtGlobError); otherwise the expression compiles and matches exactly the strings of the ground truth. Non-trivial: the batch ran; distinct: hash of the batch."
}
func (*c17) NumCases(tier string) int      { return tierN(tier, 250, 8000) }
func (*c17) MinNontrivial(tier string) int { return tierN(tier, 200, 6000) }
func (*c17) New() any                      { return &PatBatch{} }
func (*c17) CaseTimeout() time.Duration    { return 300 * time.Second }
func (*c17) Assumptions() []string {
	return []string{"bash 5.2.15 with LC_ALL=C.UTF-8 is ground truth where it can be asked; the filename modes rest on the reference matcher", "'all strings' is decided on the bounded universe only", "pattern lists with an empty alternative are out of domain (bash 5.2 is inconsistent: *@(a|) matches neither the empty string nor b)", "patterns containing !( are only checked for the documented NegExtGlobError (their matching is exercised through interp in C19 and C26)"}
}

var c17StarBeforeGroup = regexp.MustCompile(`\*[@?*+]\(`)

var c17Alphabet = []string{"*", "?", "[", "]", "!", "^", "-", "\\", ".", "/", "a", "b", "A", "1", "(", ")", "|", "@", "+", "[:alpha:]", "[:digit:]", "[:upper:]"}

func c17Pattern(i int, r *rand.Rand) string {
	n := len(c17Alphabet)
	// exhaustive part: index i enumerates patterns of 1..3 symbols
	if i < n+n*n+n*n*n && r.IntN(2) == 0 {
		k := r.IntN(n + n*n + n*n*n)
		switch {
		case k < n:
			return c17Alphabet[k]
		case k < n+n*n:
			k -= n
			return c17Alphabet[k/n] + c17Alphabet[k%n]
		default:
			k -= n + n*n
			return c17Alphabet[k/(n*n)] + c17Alphabet[k/n%n] + c17Alphabet[k%n]
		}
	}
	var sb strings.Builder
	for m := 1 + r.IntN(5); m > 0; m-- {
		switch r.IntN(9) {
		case 0, 1:
			sb.WriteString([]string{"a", "b", "A", ".", "/", "-", "1", "ab"}[r.IntN(8)])
		case 2:
			sb.WriteString([]string{"*", "?", "**", "*?", "**/", "/**"}[r.IntN(6)])
		case 3:
			// bracket expression
			sb.WriteString("[")
			if r.IntN(3) == 0 {
				sb.WriteString([]string{"!", "^"}[r.IntN(2)])
			}
			if r.IntN(6) == 0 {
				sb.WriteString("]")
			}
			for q := 1 + r.IntN(3); q > 0; q-- {
				sb.WriteString([]string{"a", "b", "A", ".", "-", "a-b", "A-b", "b-a", "[:alpha:]", "[:digit:]", "[:upper:]", "[:lower:]", "[:foo:]", "\\]", "\\-", "\\a", "/", "\\/", "1", "!", "^", "[", "[.a.]", "!-/", "--b", "a-"}[r.IntN(26)])
			}
			if r.IntN(8) > 0 {
				sb.WriteString("]")
			}
		case 4:
			op := []string{"?", "*", "+", "@", "!"}[r.IntN(5)]
			if op == "!" && r.IntN(3) > 0 {
				op = "@"
			}
			sb.WriteString(op + "(")
			for q := r.IntN(3); q >= 0; q-- {
				sb.WriteString([]string{"a", "b", "ab", "", "*", "?", ".", "[ab]", "a*", "/", "A", "@(a|b)", "a?"}[r.IntN(13)])
				if q > 0 {
					sb.WriteString("|")
				}
			}
			if r.IntN(10) > 0 {
				sb.WriteString(")")
			}
		case 5:
			sb.WriteString("\\" + []string{"*", "?", "[", "a", "\\", ".", "/", "(", "]"}[r.IntN(9)])
		default:
			sb.WriteString(c17Alphabet[r.IntN(len(c17Alphabet))])
		}
	}
	return sb.String()
}

func (p *c17) Gen(i int, r *rand.Rand) any {
	b := &PatBatch{}
	for k := 0; k < 40; k++ {
		var mode pattern.Mode
		switch r.IntN(10) {
		case 0:
		case 1:
			mode = pattern.EntireString
		case 2:
			mode = pattern.EntireString | pattern.NoGlobCase
		case 3:
			mode = pattern.EntireString | pattern.ExtendedOperators
		case 4:
			mode = pattern.EntireString | pattern.ExtendedOperators | pattern.NoGlobCase
		case 5:
			mode = pattern.Shortest
			if r.IntN(2) == 0 {
				mode |= pattern.EntireString
			}
		default:
			mode = pattern.EntireString | pattern.Filenames
			for _, f := range []pattern.Mode{pattern.NoGlobStar, pattern.GlobLeadingDot, pattern.ExtendedOperators, pattern.NoGlobCase} {
				if r.IntN(3) == 0 {
					mode |= f
				}
			}
		}
		b.Cases = append(b.Cases, PatCase{Pat: c17Pattern(i, r), Mode: uint(mode)})
	}
	return b
}

func modeString(m pattern.Mode) string {
	var s []string
	for _, f := range []struct {
		m pattern.Mode
		n string
	}{{pattern.Shortest, "Shortest"}, {pattern.Filenames, "Filenames"}, {pattern.EntireString, "EntireString"}, {pattern.NoGlobCase, "NoGlobCase"}, {pattern.NoGlobStar, "NoGlobStar"}, {pattern.GlobLeadingDot, "GlobLeadingDot"}, {pattern.ExtendedOperators, "ExtendedOperators"}} {
		if m&f.m != 0 {
			s = append(s, f.n)
		}
	}
	if len(s) == 0 {
		return "0"
	}
	return strings.Join(s, "|")
}

func c17Universe(cases []PatCase) []string {
	alpha := []rune{'a', 'b', 'A', '.', '/', '-', ']'}
	seen := map[rune]bool{}
	for _, r := range alpha {
		seen[r] = true
	}
	extra := 0
	for _, c := range cases {
		for _, r := range c.Pat {
			if extra >= 3 {
				break
			}
			if !seen[r] && !strings.ContainsRune("*?[]!^\\()|@+:", r) && r > 32 && r < 127 {
				seen[r] = true
				alpha = append(alpha, r)
				extra++
			}
		}
	}
	u := []string{""}
	for _, a := range alpha {
		u = append(u, string(a))
	}
	for _, a := range alpha {
		for _, b := range alpha {
			u = append(u, string(a)+string(b))
		}
	}
	for _, a := range alpha {
		for _, b := range alpha {
			for _, c := range alpha {
				u = append(u, string(a)+string(b)+string(c))
			}
		}
	}
	return u
}

const c17Script = `mapfile -t PS < "$HOME/P"; mapfile -t SS < "$HOME/S"; mapfile -t FS < "$HOME/F"
for i in "${!PS[@]}"; do p=${PS[i]}; f=${FS[i]}
case $f in *e*) shopt -s extglob;; *) shopt -u extglob;; esac
case $f in *n*) shopt -s nocasematch;; *) shopt -u nocasematch;; esac
r=
for s in "${SS[@]}"; do case $s in $p) r+=1;; *) r+=0;; esac; done
printf '%s\n' "$r"
done
`

func (p *c17) bashMatrix(cases []PatCase, uni []string) ([]string, error) {
	dir, err := oracle.ScratchDir(p.env.Build, "c17")
	if err != nil {
		return nil, err
	}
	defer os.RemoveAll(dir)
	var ps, fs []string
	for _, c := range cases {
		ps = append(ps, c.Pat)
		f := "-"
		if pattern.Mode(c.Mode)&pattern.ExtendedOperators != 0 {
			f += "e"
		}
		if pattern.Mode(c.Mode)&pattern.NoGlobCase != 0 {
			f += "n"
		}
		fs = append(fs, f)
	}
	w := func(name string, lines []string) error {
		return os.WriteFile(filepath.Join(dir, name), []byte(strings.Join(lines, "\n")+"\n"), 0o644)
	}
	if err := w("P", ps); err != nil {
		return nil, err
	}
	if err := w("S", uni); err != nil {
		return nil, err
	}
	if err := w("F", fs); err != nil {
		return nil, err
	}
	br := oracle.RunShell("bash", nil, []byte(c17Script), dir, oracle.SealedEnv(p.env.Build, dir), []byte{}, 120*time.Second)
	if br.Err != nil {
		return nil, br.Err
	}
	rows := strings.Split(strings.TrimSuffix(string(br.Stdout), "\n"), "\n")
	if len(rows) != len(cases) {
		return nil, fmt.Errorf("bash printed %d rows for %d patterns; stderr: %s", len(rows), len(cases), clip(string(br.Stderr), 400))
	}
	for i, r := range rows {
		if len(r) != len(uni) {
			return nil, fmt.Errorf("row %d has %d columns, want %d", i, len(r), len(uni))
		}
	}
	return rows, nil
}

func (p *c17) Run(payload any) mon.Result {
	b := payload.(*PatBatch)
	var res mon.Result
	var cases []PatCase
	for _, c := range b.Cases {
		if strings.ContainsAny(c.Pat, "\n\x00") || c.Pat == "" {
			continue
		}
		cases = append(cases, c)
	}
	if len(cases) == 0 {
		return mon.Result{Verdict: mon.OutOfDomain, Reason: "empty-batch"}
	}
	uni := c17Universe(cases)
	idx := map[string]int{}
	for i, s := range uni {
		idx[s] = i
	}
	rows, err := p.bashMatrix(cases, uni)
	if err != nil {
		return mon.Result{Verdict: mon.Inconclusive, Reason: "bash-matrix-failed", Detail: err.Error()}
	}
	var bad []string
	var firstBad *PatCase
	report := func(c PatCase, reason, format string, a ...any) {
		res.Count("violations:"+reason, 1)
		if len(bad) < 6 {
			bad = append(bad, fmt.Sprintf("[%s] pattern %q mode %s: ", reason, c.Pat, modeString(pattern.Mode(c.Mode)))+fmt.Sprintf(format, a...))
		}
		if firstBad == nil {
			cc := c
			firstBad = &cc
			res.Verdict, res.Reason = mon.Violated, reason
		}
	}
	for ci, c := range cases {
		mode := pattern.Mode(c.Mode)
		o := refOpts{ext: mode&pattern.ExtendedOperators != 0, filenames: mode&pattern.Filenames != 0, globstar: mode&pattern.NoGlobStar == 0, dotOK: mode&pattern.GlobLeadingDot != 0, nocase: mode&pattern.NoGlobCase != 0}
		toks, malformed := refParse(c.Pat, o)
		res.Count("mode:"+modeString(mode), 1)
		res.Evals++
		// ground truth over the universe, anchored
		truth := make([]bool, len(uni))
		bashRow := rows[ci]
		if !o.filenames {
			for i := range uni {
				truth[i] = bashRow[i] == '1'
			}
			if malformed == "" && !refHasNeg(toks) {
				for i, s := range uni {
					if refMatch(toks, s, o) != truth[i] {
						res.Count("reference_defects(ref!=bash)", 1)
						if res.Counters["reference_defects(ref!=bash)"] <= 3 {
							res.Detail += fmt.Sprintf("reference matcher differs from bash: pattern %q flags ext=%v nocase=%v string %q bash=%v\n", c.Pat, o.ext, o.nocase, s, truth[i])
						}
						break
					}
				}
			}
		} else {
			if malformed != "" || refHasNeg(toks) {
				// no ground truth; only the error clause below applies
			} else {
				for i, s := range uni {
					truth[i] = refMatch(toks, s, o)
				}
			}
		}
		expr, err := pattern.Regexp(c.Pat, mode)
		if err != nil {
			var neg *pattern.NegExtGlobError
			switch {
			case errors.As(err, &neg):
				if !o.ext || !strings.Contains(c.Pat, "!(") {
					report(c, "neg-extglob-error-without-negation", "Regexp returned %v", err)
				} else {
					res.Count("accepted:NegExtGlobError", 1)
				}
			case malformed != "":
				res.Count("accepted:error-on-malformed:"+malformed, 1)
			default:
				report(c, "error-on-well-formed-pattern", "Regexp returned %q; bash matches e.g. %s", err.Error(), c17Examples(uni, truth))
			}
			continue
		}
		rx, cerr := regexp.Compile(expr)
		if cerr != nil {
			report(c, "expression-does-not-compile", "Regexp returned %q: %v", expr, cerr)
			continue
		}
		if refHasNeg(toks) && o.ext {
			res.Count("skipped:negation-without-error", 1)
			continue
		}
		if o.filenames && malformed != "" {
			res.Count("skipped:malformed-in-filename-mode", 1)
			continue
		}
		if malformed != "" {
			// Regexp gave the malformed pattern a meaning; bash's reading of such
			// patterns is its own (an unclosed group is literal text, but nested
			// closed groups change that again), so only compilation is checked
			res.Count("skipped:malformed-pattern-without-error:"+malformed, 1)
			continue
		}
		if o.ext && (strings.Contains(c.Pat, "(|") || strings.Contains(c.Pat, "||") || strings.Contains(c.Pat, "|)") || strings.Contains(c.Pat, "()")) {
			// bash 5.2 itself is inconsistent here: *@(a|) does not match "" or "b"
			res.Count("ood:empty-alternative-in-a-pattern-list", 1)
			continue
		}
		classOrRange, spansSlash := refBracketFeatures(toks)
		if o.nocase && classOrRange && p.env.Findings.Active("C17-classes-and-ranges-under-nocase") {
			res.Count("known:class-or-range-under-nocase-skipped", 1)
			continue
		}
		if o.filenames && spansSlash && !refNegOnly(toks) && p.env.Findings.Active("C17-range-or-class-spanning-slash-in-filename-mode") {
			res.Count("known:range-or-class-spanning-slash-skipped", 1)
			continue
		}
		anchored := mode&pattern.EntireString != 0
		for i, s := range uni {
			want := truth[i]
			if !anchored {
				// a match anywhere: some substring matches
				want = false
				rs := []rune(s)
				for x := 0; x <= len(rs) && !want; x++ {
					for y := x; y <= len(rs); y++ {
						if j, ok := idx[string(rs[x:y])]; ok && truth[j] {
							want = true
							break
						}
					}
				}
			}
			if o.filenames && !o.dotOK && p.env.Findings.Active("C17-leading-dot-not-enforced-in-filename-mode") && (strings.HasPrefix(s, ".") || strings.Contains(s, "/.")) {
				res.Count("known:strings-with-a-leading-dot-skipped", 1)
				continue
			}
			if got := rx.MatchString(s); got != want && !o.filenames && c17StarBeforeGroup.MatchString(c.Pat) && refMatch(toks, s, o) == got && anchored {
				// bash 5.2 mishandles a star directly before a pattern list that can
				// match the empty string (*@(*) does not match "a"); the reference
				// matcher, written from the documented rules, sides with Regexp
				res.Count("ood:star-directly-before-a-pattern-list(bash quirk)", 1)
				break
			}
			if got := rx.MatchString(s); got != want {
				src := "bash"
				if o.filenames {
					src = "the reference matcher"
				}
				report(c, "matches-differently", "expression %q on string %q: matches=%v, %s says %v", expr, s, got, src, want)
				break
			}
		}
	}
	if res.Verdict == mon.Violated {
		res.Detail += strings.Join(bad, "\n")
		res.Payload = &PatBatch{Cases: []PatCase{*firstBad}}
		return res
	}
	res.Hash = mon.HashOf(b)
	res.Nontriv = true
	res.Count("universe_strings", len(uni))
	res.Sample = map[string]any{"first_pattern": cases[0].Pat, "mode": modeString(pattern.Mode(cases[0].Mode)), "universe": len(uni)}
	return res
}

func c17Examples(uni []string, truth []bool) string {
	var ex []string
	for i, s := range uni {
		if truth[i] {
			ex = append(ex, fmt.Sprintf("%q", s))
			if len(ex) == 4 {
				break
			}
		}
	}
	sort.Strings(ex)
	if len(ex) == 0 {
		return "(nothing in the universe)"
	}
	return strings.Join(ex, " ")
}

// refNegOnly reports whether every bracket expression that spans a slash is negated
// (negated ones are kept from matching a slash).
func refNegOnly(toks []refTok) bool {
	for _, t := range toks {
		switch t.kind {
		case '[':
			if _, sp := refBracketFeatures([]refTok{t}); sp && !t.neg {
				return false
			}
		case '(':
			for _, a := range t.alts {
				if !refNegOnly(a) {
					return false
				}
			}
		}
	}
	return true
}
