package props

import (
	"context"
	"fmt"
	"io"
	"math/rand/v2"
	"os"
	"path/filepath"
	"runtime/debug"
	"strconv"
	"strings"
	"time"

	"mvdan.cc/sh/v3/expand"
	"mvdan.cc/sh/v3/interp"
	"mvdan.cc/sh/v3/syntax"
	"verif/gen"
	"verif/mon"
	"verif/oracle"
)

// C28: the interpreter never panics.
type c28 struct{ base }

func init() { mon.Register(&c28{}) }

type PanicCase struct {
	Kind   string   `json:"kind"` // program | builtins | options
	Src    string   `json:"src,omitempty"`
	Lang   string   `json:"lang,omitempty"`
	Source string   `json:"source,omitempty"`
	Params []string `json:"params,omitempty"`
	Stdin  string   `json:"stdin,omitempty"`
	Opts   []string `json:"opts,omitempty"` // option vector for kind=options
}

func (*c28) ID() string { return "C28" }
func (*c28) Rule() string {
	return "(1) programs that parse in any of the five variants (repo corpus, grammar generator with all variant masks, structure/byte mutants, argument mutants of the repo's interpreter tests) run by interp.Runner with external commands refused, file access confined to a scratch directory, stdin empty/short/binary and a 2 s context; (2) builtin storms: sequences of builtins (shift getopts break continue return exit read mapfile wait unset set shopt trap cd pushd popd printf test [ type command eval alias unalias declare local let export readonly echo source) called with random argument vectors from a hostile dictionary, interleaved with changes of $@ / OPTIND / IFS; (3) option vectors for interp.New / Params (nil Env, missing Dir, nil writers, -o without value, unknown flags, both exec handler kinds separately). Oracle: recover() around New, Params, Run and Reset catches panics; a dying worker (panic in a goroutine the monitor does not own, fatal runtime error) is attributed to the journalled case and is a violation. Run ignoring its cancelled context is inconclusive here (C31's business). Non-trivial: the program has >= 2 statements or is a builtin storm; distinct: hash of the case."
}
func (*c28) NumCases(tier string) int      { return tierN(tier, 8000, 300000) }
func (*c28) MinNontrivial(tier string) int { return tierN(tier, 3000, 100000) }
func (*c28) New() any                      { return &PanicCase{} }
func (*c28) CrashIsViolation() bool        { return true }
func (*c28) CaseTimeout() time.Duration    { return 60 * time.Second }
func (*c28) Assumptions() []string {
	return []string{"documented panics are outside the domain: Reset on a Runner not built by New, ExecHandler mixed with ExecHandlers", "external commands are never executed (exec handler returns 127)"}
}

var hostileArgs = []string{"-1", "0", "1", "2", "256", "9223372036854775807", "9223372036854775808", "-9223372036854775808", "-n", "-x", "--", "-", "", "a", "a=b", "a[", "a[1]", "a[1]=x", "a[@]", "-abc", "+o", "-o", "g1", "g0", "g99", "*", "?", "[", "]", "$x", "%s", "%d", "%", "%c", "%999999d", "\\", "\\x", "\\u", "'", "\"", "-e", "-E", "-r", "-a", "-d", "-p", "-t", "-u", "-f", "-v", "-A", "-i", "-g", "-P", "=", "==", "!=", "!", "(", ")", "-eq", "-lt", "=~", "<", ">", "/", "..", ".", "~", "é", "\xff", "x y", "\n", "1+1", "1/0", "x=", "=x", "0x10", "010", "08", "2#101", "64#@", "65#1", "-nt", "-ef", "errexit", "pipefail", "nounset", "noglob", "allexport", "EXIT", "ERR", "INT", "DEBUG", "0", "HUP", "globstar", "extglob", "nullglob", "expand_aliases", ":", "IFS", "OPTIND", "OPTARG", "REPLY", "PWD", "HOME", "@", "#", "1a", "_"}

var stormBuiltins = []string{"shift", "getopts", "break", "continue", "return", "exit", "read", "mapfile", "readarray", "wait", "unset", "set", "shopt", "trap", "cd", "pushd", "popd", "dirs", "printf", "test", "[", "type", "command", "builtin", "eval", "alias", "unalias", "declare", "local", "typeset", "let", "export", "readonly", "echo", "source", ".", "exec", "pwd", "true", "false", "umask", "fg", "bg", "jobs", "times", "hash", "help", "caller", "compgen", "complete", "enable", "ulimit", "kill", "disown", "suspend", "logout", "history", "fc", "bind", "printf -v", "read -a", "read -r", "read -n", "read -d", "declare -A", "declare -a", "declare -n", "declare -i", "local -a", "unset -f", "unset -v", "set --", "set -o", "set +o", "shopt -s", "shopt -u", "trap --", "getopts abc", "getopts :a:b", "getopts a: x", "test -v", "[ -z", "mapfile -t", "mapfile -n", "wait -n", "cd -", "pushd +1", "popd -0", "export -n", "readonly -a", "alias -p", "type -a", "command -v"}

// stormFamilies keep a storm on one theme, so that the builtins of a case work
// on the same names, options and operands and can interact.
var stormFamilies = []struct{ builtins, args []string }{
	{[]string{"shopt -s expand_aliases;", "alias", "alias", "unalias", "type", "type", "command -v", "shopt -u expand_aliases;", "alias -p", "type -t", "type -a", "a;", "b;", "eval a;", "command -V"}, []string{"a", "b", "a", "b", "a=", "a=b", "a= ", "b=a ", "a='b '", "b=", "-a", "-p", "a=a", "b='echo x'", "nosuch"}},
	{[]string{"getopts", "getopts ab: o", "getopts :a:b o", "getopts a o", "shift", "OPTIND=1;", "OPTIND=3;", "OPTIND=0;", "set --", "echo $OPTIND $OPTARG $o", "unset OPTIND;", "getopts '' o", "getopts ab"}, []string{"-a", "-ab", "-abc", "-b", "val", "-", "--", "-a -b", "x", "-ba", "", "-:", "o", "1", "2", "-1", "99"}},
	{[]string{"declare -a", "declare -A", "unset", "read -a", "mapfile -t", "mapfile", "declare -p", "local", "export", "readonly", "declare -n", "declare", "echo ${arr[@]} ${#arr[@]} ${!arr[@]};", "arr+=(1 2);", "arr[1]=x;", "unset 'arr[1]';", "arr=();", "declare -A arr;", "arr[k]=v;", "echo ${arr[-1]} ${arr[k]} ${arr[1+1]};"}, []string{"arr", "arr[1]", "arr[-1]", "arr[@]", "arr[k]", "arr=(a b)", "arr=([k]=v)", "arr[", "arr[]", "arr[1]=", "-n", "-t", "-u", "3", "x", "arr=", "ref", "ref=arr", "ref=ref"}},
	{[]string{"cd", "pushd", "popd", "dirs", "pwd", "mkdir -p d1/d2;", "cd d1;", "pushd d1 >/dev/null;", "popd >/dev/null;", "dirs -c;", "OLDPWD=;", "unset OLDPWD;", "unset PWD;", "cd -", "CDPATH=.;"}, []string{"+0", "-0", "+1", "-1", "+9", "-9", "+", "-", "..", ".", "/", "d1", "d1/d2", "nosuch", "", "-L", "-P", "-n", "~", "+x", "--", "d1 d2"}},
	{[]string{"trap", "trap --", "trap -", "trap -p", "trap -l", "exit", "return", "false", "kill", "wait", "wait -n", "( exit 3 );", "true &", "jobs", "fg", "bg", "disown"}, []string{"EXIT", "ERR", "INT", "DEBUG", "0", "1", "2", "-1", "256", "HUP", "'echo t'", "''", "-", "BOGUS", "SIGINT", "%1", "%%", "$!", "99999", "x"}},
	{[]string{"test", "[", "[[", "test !", "[ !", "test -v", "test -n", "test -z", "[ -e", "test -f", "test (", "! test"}, []string{"a", "=", "==", "!=", "-eq", "-lt", "-a", "-o", "!", "(", ")", "]", "]]", "", "1", "x", "-n", "-z", "-v", "-e", "<", ">", "=~", "-nt", "-ef", "a b", "-t", "&&", "||"}},
	{[]string{"printf", "printf -v v", "echo", "echo -e", "echo -n", "echo -en", "printf --", "printf %s", "printf '%d\\n'", "printf %b", "printf %c", "printf %x", "printf '%5s'", "printf '%-5d'", "printf %q"}, []string{"%", "%%", "%s", "%d", "%5", "%-", "%*d", "%.3s", "%z", "\\", "\\x", "\\xZ", "\\u12", "\\U0010FFFF", "\\c", "\\0777", "\\1", "-1", "9223372036854775808", "0x", "08", "'a", "\"a", "", "abc", "1e3", "-n", "--"}},
	{[]string{"set", "set -o", "set +o", "shopt", "shopt -s", "shopt -u", "shopt -p", "shopt -q", "set -e;", "set -u;", "set -x;", "set +x;", "set --", "set -", "echo $-;", "set -o |"}, []string{"errexit", "nounset", "pipefail", "noglob", "allexport", "noexec", "xtrace", "posix", "bogus", "globstar", "extglob", "nullglob", "dotglob", "nocaseglob", "expand_aliases", "inherit_errexit", "lastpipe", "-e", "+e", "-o", "+o", "-euo", "pipefail -x", "--", "-", "a b"}},
	// hostile patterns held in variables, used wherever interp matches one
	{[]string{"shopt -s extglob;", "shopt -s nullglob;", "shopt -s globstar nocaseglob dotglob;", "[[ x ==", "[[ abc !=", "case x in", "p=", "echo ${v#", "echo ${v%%", "echo ${v//", "echo ${v^^", "echo", "for f in", "v=abc;", "[[ $v =~"}, []string{"$p ]]", "$p) echo m;; esac", "$p}", "$p/r}", "$p; do :; done", "'*(a'", "'+('", "'?(a|@(b)'", "'[a-\\]]'", "'[--b]'", "'[[:foo:]]'", "'[[.a.]]'", "'!(a)*'", "'**('", "'[!'", "'\\'", "'@(a|'", "'[z-a]'", "'*(*(*(a)))'", "'[[:alpha:'", "$p", "\"$p\"", "*$p*", "$p/$p", "'(?i)('", "'[^/-a]'"}},
	{[]string{"read", "read -r", "read -a arr", "read -n", "read -d", "read -p", "read -s", "read -t", "read -u", "read -N", "mapfile", "readarray -t", "IFS=: read", "IFS= read", "read x y z", "read -rn1", "REPLY=;"}, []string{"x", "x y", "-1", "0", "1", "3", "999999999", "''", "a", "-", "x[1]", "x[", "1x", "", "-r", "-e", "-i", "txt", "$'\\n'", "0.1", "9", "-t0"}},
}

func (p *c28) Gen(i int, r *rand.Rand) any {
	args, blts := hostileArgs, stormBuiltins
	if fam := r.IntN(2 * len(stormFamilies)); fam < len(stormFamilies) {
		args, blts = stormFamilies[fam].args, stormFamilies[fam].builtins
	}
	pickArgs := func(lo, hi int) []string {
		var a []string
		for n := lo + r.IntN(hi-lo+1); n > 0; n-- {
			a = append(a, args[r.IntN(len(args))])
		}
		return a
	}
	if r.IntN(25) == 0 {
		// a getopts session: the same option string parsed over changing argument
		// lists, with OPTIND resets, shifts and new positional parameters in between
		optstr := []string{"ab", "abc", "a:b", ":a:b:", "ab:", "a", ":", "", "a:", "abc:d"}[r.IntN(10)]
		clusters := []string{"-a", "-b", "-ab", "-abc", "-ba", "-c", "-", "--", "x", "-a x", "-bval", "-b val", "-abx", "-d", "-:", "", "-cab"}
		argv := func() string {
			var a []string
			for n := r.IntN(4); n > 0; n-- {
				a = append(a, clusters[r.IntN(len(clusters))])
			}
			return strings.Join(a, " ")
		}
		var sb strings.Builder
		for n := 2 + r.IntN(6); n > 0; n-- {
			switch r.IntN(9) {
			case 0:
				sb.WriteString("OPTIND=" + []string{"1", "2", "3", "0", "-1", "9", "x", ""}[r.IntN(8)] + "\n")
			case 1:
				sb.WriteString("set -- " + argv() + "\n")
			case 2:
				sb.WriteString("shift " + []string{"", "1", "2", "$((OPTIND-1))"}[r.IntN(4)] + "\n")
			case 3:
				sb.WriteString("getopts '" + optstr + "' o\n") // uses the positional parameters
			case 4:
				sb.WriteString("while getopts '" + optstr + "' o " + argv() + "; do echo \"$o $OPTARG $OPTIND\"; done\n")
			default:
				sb.WriteString("getopts '" + optstr + "' o " + argv() + "; echo \"$? $o $OPTARG $OPTIND\"\n")
			}
		}
		return &PanicCase{Kind: "builtins", Src: sb.String(), Lang: "bash", Params: strings.Fields(argv()), Source: "getopts-session"}
	}
	switch k := r.IntN(20); {
	case k == 0:
		c := &PanicCase{Kind: "options"}
		all := []string{"env-nil", "dir-missing", "dir-relative", "dir-file", "stdio-nil", "params:-o", "params:-x", "params:--", "params:-e a b", "params:+e", "params:-o bogus", "params:-o errexit", "params:-c", "params:-", "params:-euxo pipefail", "params:a -e", "params:--posix", "params:-abc", "exechandler", "exechandlers", "openhandler-nil", "callhandler", "interactive", "env-list-bad", "params:-o -o", "params:+o", "params:-n"}
		for n := 1 + r.IntN(4); n > 0; n-- {
			c.Opts = append(c.Opts, all[r.IntN(len(all))])
		}
		c.Src = "echo \"$@\" $-; set -o | head -n 2"
		return c
	case k < 8:
		// builtin storm
		var sb strings.Builder
		if r.IntN(2) == 0 {
			sb.WriteString("set -- " + shellJoin(pickArgs(0, 4)) + "\n")
		}
		wrap := r.IntN(4)
		switch wrap {
		case 0:
			sb.WriteString("f() {\n")
		case 1:
			sb.WriteString("for i in 1 2; do\n")
		}
		for n := 2 + r.IntN(8); n > 0; n-- {
			b := blts[r.IntN(len(blts))]
			line := b + " " + shellJoin(pickArgs(0, 4))
			if strings.HasSuffix(b, ";") {
				line = b // a fixed statement of the family
			} else if r.IntN(3) == 0 {
				line = b + " " + strings.Join(pickArgs(0, 3), " ") // unquoted arguments: the family's words are shell syntax
			}
			deco := r.IntN(8)
			if strings.HasSuffix(b, ";") {
				deco = 7
			}
			switch deco {
			case 0:
				line += " <<< " + shellJoin(pickArgs(1, 1))
			case 1:
				line = "OPTIND=" + shellJoin(pickArgs(1, 1)) + "; " + line
			case 2:
				line = "IFS=" + shellJoin(pickArgs(1, 1)) + " " + line
			case 3:
				line += " | " + strings.TrimSuffix(blts[r.IntN(len(blts))], ";") + " " + shellJoin(pickArgs(0, 2))
			case 4:
				line = "( " + line + " )"
			}
			sb.WriteString(line + "\n")
		}
		switch wrap {
		case 0:
			sb.WriteString("}\nf " + shellJoin(pickArgs(0, 3)) + "\nf\n")
		case 1:
			sb.WriteString("done\n")
		}
		return &PanicCase{Kind: "builtins", Src: sb.String(), Lang: "bash", Params: pickArgs(0, 3), Stdin: []string{"", "a b c\n", "\x00\xff\n", "x\\\ny\n", "-n\n"}[r.IntN(5)]}
	case k < 10:
		ic := p.corpus.Interp[r.IntN(len(p.corpus.Interp))]
		src := mutateArgsWild(r, ic.In)
		return &PanicCase{Kind: "program", Src: src, Lang: "bash", Source: "interp-test-mutant", Params: pickArgs(0, 2)}
	default:
		c := p.synInputX(r, synMustParse, true, false, true)
		if c == nil {
			return nil
		}
		return &PanicCase{Kind: "program", Src: string(c.Src), Lang: c.Lang, Source: c.Source, Params: pickArgs(0, 2), Stdin: []string{"", "line\n", "\x00\n"}[r.IntN(3)]}
	}
}

func shellJoin(args []string) string {
	var out []string
	for _, a := range args {
		out = append(out, "'"+strings.ReplaceAll(a, "'", `'\''`)+"'")
	}
	return strings.Join(out, " ")
}

// mutateArgsWild replaces numeric tokens and some words by hostile values.
func mutateArgsWild(r *rand.Rand, src string) string {
	locs := numTokRe.FindAllStringSubmatchIndex(src, -1)
	if len(locs) == 0 || r.IntN(3) == 0 {
		// append a hostile argument to the first line instead
		i := strings.IndexAny(src, ";\n")
		if i < 0 {
			i = len(src)
		}
		return src[:i] + " " + shellJoin([]string{hostileArgs[r.IntN(len(hostileArgs))]}) + src[i:]
	}
	m := locs[r.IntN(len(locs))]
	repl := []string{"-1", "0", "256", "99999999999999999999", "-99999999999999999999", "''", "abc", "1a", "-", "9223372036854775807"}[r.IntN(10)]
	return src[:m[4]] + repl + src[m[5]:]
}

// strictOpen confines all file access to root (plus /dev/null).
func strictOpen(root string) interp.OpenHandlerFunc {
	def := interp.DefaultOpenHandler()
	return func(ctx context.Context, path string, flag int, perm os.FileMode) (io.ReadWriteCloser, error) {
		abs := path
		if !filepath.IsAbs(abs) {
			abs = filepath.Join(interp.HandlerCtx(ctx).Dir, abs)
		}
		abs = filepath.Clean(abs)
		if abs != "/dev/null" && abs != root && !strings.HasPrefix(abs, root+"/") {
			return nil, &os.PathError{Op: "open", Path: path, Err: os.ErrNotExist}
		}
		return def(ctx, path, flag, perm)
	}
}

func refuseExec(next interp.ExecHandlerFunc) interp.ExecHandlerFunc {
	return func(ctx context.Context, args []string) error {
		return interp.NewExitStatus(127)
	}
}

func (p *c28) Run(payload any) mon.Result {
	c := payload.(*PanicCase)
	var res mon.Result
	dir, err := oracle.ScratchDir(p.env.Build, "c28")
	if err != nil {
		return mon.Result{Verdict: mon.Inconclusive, Reason: "scratch-dir", Detail: err.Error()}
	}
	defer os.RemoveAll(dir)
	res.Hash = mon.HashOf(c)
	res.Count("kind:"+c.Kind, 1)
	lang := langByName(c.Lang)
	f, perr := syntax.NewParser(syntax.Variant(lang)).Parse(strings.NewReader(c.Src), "")
	if perr != nil {
		return mon.Result{Verdict: mon.OutOfDomain, Reason: "does-not-parse"}
	}
	res.Count("lang:"+c.Lang, 1)
	res.Nontriv = len(f.Stmts) >= 2 || c.Kind != "program"

	var stage string
	var pan any
	var stack []byte
	done := make(chan struct{})
	ctx, cancel := context.WithTimeout(context.Background(), 2*time.Second)
	defer cancel()
	go func() {
		defer close(done)
		defer func() {
			if e := recover(); e != nil {
				pan, stack = e, debug.Stack()
			}
		}()
		stage = "New"
		var opts []interp.RunnerOption
		if c.Kind == "options" {
			opts = optionVector(c.Opts, dir)
		} else {
			opts = []interp.RunnerOption{
				interp.Dir(dir),
				interp.Env(expand.ListEnviron(oracle.SealedEnv(p.env.Build, dir)...)),
				interp.StdIO(strings.NewReader(c.Stdin), io.Discard, io.Discard),
				interp.ExecHandlers(refuseExec),
				interp.OpenHandler(strictOpen(dir)),
				interp.Params(append([]string{"--"}, c.Params...)...),
			}
		}
		r, err := interp.New(opts...)
		if err != nil {
			res.Count("new_returned_error", 1)
			return
		}
		stage = "Run"
		r.Run(ctx, f)
		stage = "Reset"
		r.Reset()
		stage = "Run-after-Reset"
		ctx2, cancel2 := context.WithTimeout(context.Background(), time.Second)
		defer cancel2()
		r.Run(ctx2, f)
	}()
	select {
	case <-done:
	case <-time.After(20 * time.Second):
		return mon.Result{Verdict: mon.Inconclusive, Reason: "run-ignored-cancelled-context", Detail: clip(c.Src, 400)}
	}
	if pan != nil {
		if isDocumentedPanic(fmt.Sprint(pan)) {
			return mon.Result{Verdict: mon.OutOfDomain, Reason: "documented-panic"}
		}
		res.Fail("panic-in-"+stage, fmt.Sprintf("kind=%s lang=%s params=%q opts=%v stdin=%q\nprogram:\n%s\npanic: %v\n%s", c.Kind, c.Lang, c.Params, c.Opts, c.Stdin, c.Src, pan, trimInterpStack(stack)))
		return res
	}
	res.Sample = map[string]any{"kind": c.Kind, "lang": c.Lang, "src": clip(c.Src, 200), "opts": c.Opts}
	return res
}

func isDocumentedPanic(msg string) bool {
	return strings.Contains(msg, "use interp.New to construct a Runner") || strings.Contains(msg, "should be replaced with interp.ExecHandlers")
}

func trimInterpStack(b []byte) string {
	lines := strings.Split(string(b), "\n")
	var keep []string
	for i := 0; i < len(lines) && len(keep) < 24; i++ {
		if strings.Contains(lines[i], "mvdan.cc/sh") || strings.HasPrefix(lines[i], "panic") {
			keep = append(keep, lines[i])
			if i+1 < len(lines) {
				keep = append(keep, lines[i+1])
				i++
			}
		}
	}
	return strings.Join(keep, "\n")
}

func optionVector(names []string, dir string) []interp.RunnerOption {
	var opts []interp.RunnerOption
	usedExec := ""
	for _, n := range names {
		switch {
		case n == "env-nil":
			opts = append(opts, interp.Env(nil))
		case n == "env-list-bad":
			opts = append(opts, interp.Env(expand.ListEnviron("=x", "novalue", "A=1", "A=2", "\x00=1")))
		case n == "dir-missing":
			opts = append(opts, interp.Dir(filepath.Join(dir, "missing")))
		case n == "dir-relative":
			opts = append(opts, interp.Dir("."))
		case n == "dir-file":
			fn := filepath.Join(dir, "afile")
			os.WriteFile(fn, nil, 0o644)
			opts = append(opts, interp.Dir(fn))
		case n == "stdio-nil":
			opts = append(opts, interp.StdIO(nil, nil, nil))
		case strings.HasPrefix(n, "params:"):
			opts = append(opts, interp.Params(strings.Fields(strings.TrimPrefix(n, "params:"))...))
		case n == "exechandler" && usedExec != "s":
			usedExec = "h"
			opts = append(opts, interp.ExecHandler(func(ctx context.Context, args []string) error { return nil }))
		case n == "exechandlers" && usedExec != "h":
			usedExec = "s"
			opts = append(opts, interp.ExecHandlers(refuseExec))
		case n == "openhandler-nil":
			opts = append(opts, interp.OpenHandler(strictOpen(dir)))
		case n == "callhandler":
			opts = append(opts, interp.CallHandler(func(ctx context.Context, args []string) ([]string, error) { return args, nil }))
		case n == "interactive":
			opts = append(opts, interp.Interactive(true))
		}
	}
	if usedExec == "" {
		opts = append(opts, interp.ExecHandlers(refuseExec))
	}
	return opts
}

var _ = strconv.Itoa
var _ = gen.Dict
