package props

import (
	"fmt"
	"math/rand/v2"
	"regexp"
	"strings"
	"time"

	"verif/gen"
	"verif/mon"
)

// C26: the interpreter runs supported programs like bash.
type c26 struct {
	base
	repoProgs []gen.InterpCase
}

func init() { mon.Register(&c26{}) }

func (*c26) ID() string { return "C26" }
func (*c26) Rule() string {
	return "programs from (1) the runnable generator over the features the property lists (control flow, functions/return, locals, subshells, command substitution, pipelines of builtins and allowlisted tools, here-documents and here-strings, file redirections, case, [[ ]], test, arrays, set -e, pipefail, EXIT/ERR traps, break/continue levels), (2) the repo's own runTests programs that are safe, deterministic and not marked #IGNORE, unmodified (also used to calibrate the bash oracle against the repo's recorded output) and (3) numeric-argument mutants of those; each is run by interp.Runner and by bash 5.2 in fresh scratch directories with the same sealed environment; stdout bytes and exit status must be equal. A program on which bash writes to stderr is out of domain (usage errors and diagnostics are not 'the supported language'). Non-trivial: the program has at least 3 feature tags or comes from the repo; distinct: hash of the source."
}
func (*c26) NumCases(tier string) int      { return tierN(tier, 1000, 20000) }
func (*c26) MinNontrivial(tier string) int { return tierN(tier, 500, 7500) }
func (*c26) New() any                      { return &ProgCase{} }
func (*c26) CaseTimeout() time.Duration    { return 90 * time.Second }
func (*c26) Assumptions() []string {
	return []string{"bash 5.2.15 is ground truth (the repo targets 5.3)", "stderr is not compared", "the generator's feature list is what 'supported language' means in this run (see counters feature:*)"}
}

func (p *c26) Init(env *mon.Env) error {
	if err := p.base.Init(env); err != nil {
		return err
	}
	p.repoProgs = p.interpCorpus()
	if len(p.repoProgs) < 300 {
		return fmt.Errorf("only %d safe repo programs", len(p.repoProgs))
	}
	return nil
}

// c26Avoid lists generator features carved out while the named finding is known.
func (p *c26) avoid() map[string]bool {
	av := map[string]bool{}
	f := p.env.Findings
	if f.Carved("C26-err-trap-scope") {
		av["trap-err-persistent"] = true
	}
	if f.Carved("C26-errexit-exempt-status-in-compound") {
		av["set-e-persistent"] = true
	}
	if f.Carved("C20-let-quoted-expression") {
		av["let-quoted-expr"] = true
	}
	return av
}

var c26LetRedirRe = regexp.MustCompile(`(^|[;&|\n{(]|then|do|else)[ \t]*let [^"'\n;]*[<>]`)

func (p *c26) Gen(i int, r *rand.Rand) any {
	switch k := r.IntN(20); {
	case k < 3:
		ic := p.repoProgs[r.IntN(len(p.repoProgs))]
		return &ProgCase{Src: ic.In, Source: "repo", Want: ic.Want}
	case k < 5:
		ic := p.repoProgs[r.IntN(len(p.repoProgs))]
		m := mutateArgs(r, ic.In)
		if m == ic.In {
			return &ProgCase{Src: ic.In, Source: "repo", Want: ic.Want}
		}
		return &ProgCase{Src: m, Source: "repo-mutant"}
	}
	src, tags := gen.RunProgram(r, gen.RunOpts{Avoid: p.avoid()})
	return &ProgCase{Src: src, Tags: tags, Source: "generated"}
}

// wantStdout turns a runTests expectation into (stdout, status) when it has no
// diagnostics mixed in; ok=false otherwise.
func wantPlain(want string) (string, int, bool) {
	if strings.Contains(want, "#JUSTERR") || strings.Contains(want, "#IGNORE") {
		return "", 0, false
	}
	status := 0
	if i := strings.LastIndex(want, "exit status "); i >= 0 {
		fmt.Sscanf(want[i:], "exit status %d", &status)
		want = want[:i]
	}
	return want, status, true
}

func (p *c26) Run(payload any) mon.Result {
	c := payload.(*ProgCase)
	var res mon.Result
	if endsInLoneBackslash([]byte(strings.TrimRight(c.Src, "\n"))) {
		return mon.Result{Verdict: mon.OutOfDomain, Reason: "lone-trailing-backslash"}
	}
	if _, err := parseAs([]byte(c.Src), langByName("bash"), true); err != nil {
		return mon.Result{Verdict: mon.OutOfDomain, Reason: "does-not-parse"}
	}
	if c26LetRedirRe.MatchString(c.Src) && p.env.Findings.Active("C26-let-unquoted-comparison-is-a-redirection") {
		return mon.Result{Verdict: mon.Known, Reason: "C26-let-unquoted-comparison-is-a-redirection"}
	}
	bo, err := p.inShell("bash", c.Src)
	if err != nil {
		return mon.Result{Verdict: mon.Inconclusive, Reason: "bash-run-failed", Detail: err.Error()}
	}
	if bo.TimedOut {
		return mon.Result{Verdict: mon.Inconclusive, Reason: "bash-timeout", Detail: c.Src}
	}
	if strings.TrimSpace(bo.Stderr) != "" {
		return mon.Result{Verdict: mon.OutOfDomain, Reason: "bash-diagnostic", Counters: res.Counters}
	}
	if c.Source == "repo" {
		// Calibration: the repo records what bash 5.3 printed for this program. Where
		// bash 5.2 (the one installed) says something else, the difference is about
		// bash versions or an interp-specific message, and 5.2 is no oracle for it.
		if w, st, ok := wantPlain(c.Want); ok {
			res.Count("calibration_total", 1)
			if w == bo.Stdout && st == bo.Status {
				res.Count("calibration_agree", 1)
			} else {
				return mon.Result{Verdict: mon.OutOfDomain, Reason: "bash-5.2-differs-from-repo-expectation", Counters: res.Counters}
			}
		}
	}
	io, err := p.inInterp(c.Src)
	if err != nil {
		return mon.Result{Verdict: mon.Inconclusive, Reason: "interp-run-failed", Detail: err.Error()}
	}
	if io.Panic != "" {
		res.Fail("interp-panic", io.Panic) // C28's concern as well; visible here too
		return res
	}
	if io.TimedOut {
		return mon.Result{Verdict: mon.Inconclusive, Reason: "interp-timeout", Detail: c.Src}
	}
	res.Evals = 2
	for _, t := range c.Tags {
		res.Count("feature:"+t, 1)
	}
	res.Count("source:"+c.Source, 1)
	if !io.same(bo) {
		if id := p.explained(c, io, bo); id != "" {
			res.Verdict, res.Reason = mon.Known, id
			res.Hash = mon.HashOf(c.Src)
			return res
		}
		reason := "stdout-differs"
		if io.Stdout == bo.Stdout {
			reason = "status-differs"
		}
		if io.Fatal {
			reason = "interp-fatal-error"
		}
		res.Fail(reason, fmt.Sprintf("program:\n%s\n  interp: %s (err %q, stderr %q)\n  bash:   %s", c.Src, io, io.Err, clip(io.Stderr, 300), bo))
		return res
	}
	res.Hash = mon.HashOf(c.Src)
	res.Nontriv = len(c.Tags) >= 3 || c.Source != "generated"
	res.Sample = map[string]any{"source": c.Source, "src": clip(c.Src, 300), "stdout": clip(bo.Stdout, 120), "status": bo.Status}
	return res
}

// explained applies the difference predicates of known findings.
func (p *c26) explained(c *ProgCase, io, bo progOut) string {
	return ""
}

func (p *c26) Finish(tier string, ctr map[string]int) (map[string]any, string) {
	extra := map[string]any{"calibration": map[string]int{"repo_programs_with_plain_expectation": ctr["calibration_total"], "bash_agrees_with_repo_expectation": ctr["calibration_agree"]}}
	if t := ctr["calibration_total"]; t >= 20 && ctr["calibration_agree"]*100 < t*80 {
		return extra, fmt.Sprintf("bash oracle miscalibrated: agrees with the repo's recorded output on only %d of %d programs", ctr["calibration_agree"], t)
	}
	return extra, ""
}

func (p *c26) Shrink(payload any, still func(any) bool) any {
	return shrinkProg(payload, still)
}

// shrinkProg removes lines while the violation persists.
func shrinkProg(payload any, still func(any) bool) any {
	c := *(payload.(*ProgCase))
	lines := strings.SplitAfter(c.Src, "\n")
	for chunk := len(lines) / 2; chunk >= 1; chunk /= 2 {
		for i := 0; i+chunk <= len(lines); {
			cand := append(append([]string{}, lines[:i]...), lines[i+chunk:]...)
			d := c
			d.Src = strings.Join(cand, "")
			if strings.Count(d.Src, "&\n") != strings.Count(d.Src, "&\nwait\n") {
				i += chunk // never separate a background job from its wait
				continue
			}
			if still(&d) {
				lines = cand
			} else {
				i += chunk
			}
		}
	}
	c.Src = strings.Join(lines, "")
	return &c
}
