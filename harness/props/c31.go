package props

import (
	"context"
	"fmt"
	"io"
	"math/rand/v2"
	"os"
	"regexp"
	"runtime"
	"strings"
	"sync/atomic"
	"time"

	"mvdan.cc/sh/v3/expand"
	"mvdan.cc/sh/v3/interp"
	"verif/mon"
	"verif/oracle"
)

// C31: cancelling the context stops any program promptly.
type c31 struct{ base }

func init() { mon.Register(&c31{}) }

type CancelCase struct {
	Src      string   `json:"src"`
	CancelUS int      `json:"cancel_after_us"`
	AtHook   int      `json:"cancel_at_hook,omitempty"` // >0: cancel from inside the k-th verif hook call instead
	Tags     []string `json:"tags,omitempty"`
	// Warm: the Runner first runs this program to completion under another,
	// never cancelled context (a Runner reused as cmd/gosh does).
	Warm string `json:"warm_up,omitempty"`
}

const (
	c31Kill   = 200 * time.Millisecond
	c31Margin = 5 * time.Second
)

func (*c31) ID() string { return "C31" }
func (*c31) Rule() string {
	return "non-terminating or blocking commands (while/until/for((;;)) loops, read, read -a, mapfile, select, cat and sleep as external processes, wait on background jobs) placed in every composing context (alone, function, eval, group, subshell, $( ), each pipeline stage, & + wait / wait $!, <( ) read and never read, >( ), EXIT trap, here-document feeding a blocked reader, condition of if/while, nested twice). Standard input is the read end of a pipe nobody writes to. One Runner in three has first run a short program to completion under another context that stays alive (reuse without Reset). The context is cancelled at an instant spread over 0-300 ms after Run starts, or from inside the k-th verif-tag hook call (a goroutine boundary). The exec kill timeout is set to 200 ms. Oracle: Run returns a non-nil error within 200 ms + 5 s of the cancel; 'violated' additionally needs absence of progress: two goroutine dumps one second apart show the goroutine running Run blocked in the same frames, or Run is still executing 35 s later. Slow but returning is inconclusive. Non-trivial: Run was still running when the context was cancelled; distinct: hash of (program, instant)."
}
func (*c31) NumCases(tier string) int      { return tierN(tier, 1400, 14000) }
func (*c31) MinNontrivial(tier string) int { return tierN(tier, 1000, 10000) }
func (*c31) New() any                      { return &CancelCase{} }
func (*c31) Race(tier string) bool         { return tier == "thorough" }
func (*c31) CaseTimeout() time.Duration    { return 200 * time.Second }
func (*c31) Assumptions() []string {
	return []string{"the bound checked is killTimeout (configured to 200 ms) + 5 s; an unbounded 'eventually' is not decided", "external commands are the allowlisted sleep and cat, run through interp.DefaultExecHandler"}
}

var (
	c31HookN      atomic.Int64
	c31HookTarget atomic.Int64
	c31HookCancel atomic.Pointer[context.CancelFunc]
	c31HookFired  atomic.Int64
)

func c31Hook(point string) {
	n := c31HookN.Add(1)
	if t := c31HookTarget.Load(); t > 0 && n == t {
		if c := c31HookCancel.Load(); c != nil {
			c31HookFired.Store(n)
			(*c)()
		}
	}
}

func (p *c31) Init(env *mon.Env) error {
	if err := p.base.Init(env); err != nil {
		return err
	}
	setVerifYield(c31Hook)
	return nil
}

var c31Blockers = []struct{ tag, src string }{
	{"while-loop", "while :; do :; done"},
	{"while-loop-work", "i=0; while true; do i=$((i+1)); a[i%7]=$i; done"},
	{"until-loop", "until false; do :; done"},
	{"cstyle-loop", "for ((;;)); do :; done"},
	{"cstyle-loop-cond", "for ((i=0; i>=0; i=0)); do :; done"},
	{"nested-loops", "while :; do for x in 1 2 3; do case $x in 2) continue;; esac; done; done"},
	{"read", "read x"},
	{"read-array", "read -r -a arr"},
	{"read-loop", "while read -r line; do :; done"},
	{"mapfile", "mapfile -t m"},
	{"select", "select x in a b c; do :; done"},
	{"ext-sleep", "sleep 45"},
	{"ext-cat", "cat"},
	{"sleep-loop", "while :; do sleep 45; done"},
	{"bg-wait", "sleep 45 & wait"},
	{"bg-wait-id", "sleep 45 & wait $!"},
	{"bg-loop-wait", "{ while :; do :; done; } & wait"},
	{"bg-read-wait", "read x & wait"},
	{"cmdsubst-loop", "x=$(while :; do :; done)"},
	{"function-loop", "f() { while :; do :; done; }; f"},
	{"arith-loop", "while ((1)); do ((n++)); done"},
	{"test-loop", "while [[ -z $never ]]; do [ a = a ]; done"},
	{"read-n", "read -n 3 x"},
	{"read-d", "read -d : x"},
	{"read-s", "read -s x"},
	{"read-t", "read -t 50 x"},
	{"read-ifs", "IFS= read -r x y z"},
	{"read-dup-fd", "exec 3<&0; read x <&3"},
	{"ext-cat-dup", "cat <&0"},
	{"ext-pipeline", "sleep 45 | cat | cat"},
	{"ext-two-sleeps", "sleep 45 | sleep 45"},
	{"loop-cond-ext", "while sleep 45; do :; done"},
	{"time-ext", "time sleep 45"},
	{"command-ext", "command sleep 45"},
	{"exec-ext", "exec sleep 45"},
	{"cmdsubst-cat", "x=$(cat)"},
	{"herestring-subst", "read x <<< \"$(sleep 45)\""},
	{"default-subst", ": ${unset_v:-$(sleep 45)}"},
	{"arith-subst", ": $(( $(sleep 45; echo 1) + 1 ))"},
	{"test-subst", "[[ -n $(sleep 45) ]]"},
	{"case-subst", "case $(sleep 45) in x) :;; esac"},
	{"for-subst", "for w in $(sleep 45); do :; done"},
	{"declare-subst", "declare y=$(sleep 45)"},
	{"array-subst", "arr=( $(sleep 45) )"},
	{"redirect-subst", "echo x > \"f$(sleep 45)\""},
	{"backquote-subst", "x=`sleep 45`"},
	{"wait-two-jobs", "sleep 45 & sleep 44 & wait"},
	{"wait-n-jobs", "for i in 1 2 3 4; do { read x; } & done; wait"},
	{"expansion-loop", "while :; do : ${x:=y} ${x//y/z} {1..20}; done"},
}

// builtins that read the shell's standard input themselves
var c31ReadsStdin = map[string]bool{"read": true, "read-array": true, "read-loop": true, "mapfile": true, "select": true, "bg-read-wait": true,
	"read-n": true, "read-d": true, "read-s": true, "read-t": true, "read-ifs": true, "read-dup-fd": true, "wait-n-jobs": true}

var c31Contexts = []struct{ tag, src string }{
	{"alone", "%s"},
	{"group", "{ %s; }"},
	{"subshell", "( %s )"},
	{"function", "fn() { %s; }; fn"},
	{"eval", "eval %q"},
	{"cmdsubst", "echo \"$( %s )\""},
	{"pipe-first", "{ %s; } | cat"},
	{"pipe-last", "true | { %s; }"},
	{"pipe-middle", "true | { %s; } | cat"},
	{"background-wait", "{ %s; } &\nwait"},
	{"background-wait-id", "{ %s; } &\nwait $!"},
	{"background-then-loop", "{ %s; } &\nwhile :; do :; done"},
	{"procsubst-read", "cat <( %s )"},
	{"procsubst-never-read", ": <( %s )\nwhile :; do :; done"},
	{"procsubst-out", "echo x > >( %s )\nwait\nwhile :; do :; done"},
	{"procsubst-out-never-opened", ": >( %s )\nwait"},
	{"procsubst-in-never-opened", ": <( %s )\nwait"},
	{"procsubst-refused-command", "nosuchcmd_zz >( %s ) 2>/dev/null\nwait\nwhile :; do :; done"},
	{"exit-trap", "trap %q EXIT\nexit 3"},
	{"err-trap", "trap %q ERR\nfalse"},
	{"heredoc-feeds", "{ %s; } <<EOF\n$(sleep 45)\nEOF"},
	{"if-cond", "if %s; then :; fi"},
	{"while-cond", "while %s; do :; done"},
	{"negated-and-or", "! { %s; } && : || :"},
	{"twice-nested", "( fn() { x=$( { %s; } | cat ); }; fn ) &\nwait"},
	{"after-output", "echo started\n%s"},
	{"redirected", "{ %s; } >out.txt 2>&1"},
	{"sourced", "printf '%%s\\n' %q > lib.sh\n. ./lib.sh"},
}

func (p *c31) Gen(i int, r *rand.Rand) any {
	// the first len(blockers)*len(contexts) cases walk the cross product in a
	// PRNG-permuted order; later ones sample it with fresh instants
	nb, nc := len(c31Blockers), len(c31Contexts)
	k := i % (nb * nc)
	k = (k*7919 + int(p.env.Seed%1000)*31) % (nb * nc)
	b, c := c31Blockers[k%nb], c31Contexts[k/nb]
	cc := &CancelCase{Tags: []string{"blocker:" + b.tag, "context:" + c.tag}}
	if strings.Contains(c.src, "%q") {
		cc.Src = fmt.Sprintf(c.src, b.src)
		cc.Src = strings.Replace(cc.Src, `"`+b.src+`"`, shq(b.src), 1) // %q of Go is not shell quoting
	} else {
		cc.Src = fmt.Sprintf(c.src, b.src)
	}
	cc.Src += "\n"
	if r.IntN(3) == 0 {
		wi := r.IntN(4)
		if p.env.Findings.Carved("C31-read-after-external-command-inherited-stdin") && (wi == 1 || wi == 2) && c31ReadsStdin[b.tag] {
			wi = 0
		}
		cc.Warm = []string{"x=$(echo warm); echo \"$x\"\n", "echo one | cat >/dev/null; cat <(echo two) >/dev/null\n", "sleep 0 & wait; f() { :; }; f\n", "read -t 0 y; true\n"}[wi]
		cc.Tags = append(cc.Tags, "reused-runner")
	}
	if r.IntN(4) == 0 {
		cc.AtHook = 1 + r.IntN(6)
		cc.CancelUS = 300000 // fallback instant if the k-th hook never comes
	} else {
		cc.CancelUS = []int{0, 200, 1000, 3000, 8000, 20000, 40000, 70000, 110000, 160000, 220000, 300000}[r.IntN(12)]
	}
	return cc
}

var goidRe = regexp.MustCompile(`^goroutine (\d+) \[`)

func curGoid() string {
	var buf [64]byte
	n := runtime.Stack(buf[:], false)
	if m := goidRe.FindSubmatch(buf[:n]); m != nil {
		return string(m[1])
	}
	return ""
}

// goroutineBlock returns the dump block of goroutine id: its state and its frames
// (function names only, so that argument values do not matter).
func goroutineBlock(dump, id string) (state string, frames []string, found bool) {
	for _, blk := range strings.Split(dump, "\n\n") {
		if !strings.HasPrefix(blk, "goroutine "+id+" [") {
			continue
		}
		lines := strings.Split(blk, "\n")
		state = lines[0][strings.Index(lines[0], "[")+1:]
		if j := strings.IndexAny(state, ",]"); j >= 0 {
			state = state[:j]
		}
		for _, l := range lines[1:] {
			if strings.HasPrefix(l, "\t") || l == "" {
				continue
			}
			if j := strings.LastIndex(l, "("); j > 0 {
				l = l[:j]
			}
			frames = append(frames, l)
		}
		return state, frames, true
	}
	return "", nil, false
}

func allStacks() string {
	buf := make([]byte, 1<<20)
	for {
		n := runtime.Stack(buf, true)
		if n < len(buf) {
			return string(buf[:n])
		}
		buf = make([]byte, 2*len(buf))
	}
}

func (p *c31) Run(payload any) mon.Result {
	c := payload.(*CancelCase)
	var res mon.Result
	f, err := oracle.ParseBash([]byte(c.Src))
	if err != nil {
		return mon.Result{Verdict: mon.OutOfDomain, Reason: "does-not-parse", Detail: err.Error() + "\n" + c.Src}
	}
	dir, err := oracle.ScratchDir(p.env.Build, "c31")
	if err != nil {
		return mon.Result{Verdict: mon.Inconclusive, Reason: "scratch-dir"}
	}
	defer os.RemoveAll(dir)
	pr, pw, err := os.Pipe()
	if err != nil {
		return mon.Result{Verdict: mon.Inconclusive, Reason: "pipe"}
	}
	defer pw.Close()
	defer pr.Close()
	out := &lockedBuf{}
	r, err := interp.New(
		interp.Dir(dir),
		interp.Env(expand.ListEnviron(oracle.SealedEnv(p.env.Build, dir)...)),
		interp.StdIO(pr, out, io.Discard),
		interp.ExecHandlers(oracle.SandboxExec, func(next interp.ExecHandlerFunc) interp.ExecHandlerFunc {
			return interp.DefaultExecHandler(c31Kill)
		}),
		interp.OpenHandler(oracle.SandboxOpen(dir)),
	)
	if err != nil {
		return mon.Result{Verdict: mon.Inconclusive, Reason: "new-failed", Detail: err.Error()}
	}
	if c.Warm != "" {
		wf, err := oracle.ParseBash([]byte(c.Warm))
		if err != nil {
			return mon.Result{Verdict: mon.OutOfDomain, Reason: "warm-up-does-not-parse"}
		}
		wctx, wcancel := context.WithCancel(context.Background())
		defer wcancel() // only after the case is over
		if _, pan, ok := runNodeCtx(wctx, r, wf, 10*time.Second); pan != nil || !ok {
			return mon.Result{Verdict: mon.Inconclusive, Reason: "warm-up-did-not-finish", Detail: c.Warm}
		}
	}
	ctx, cancel := context.WithCancel(context.Background())
	defer cancel()
	var cancelAt atomic.Int64
	cancelOnce := context.CancelFunc(func() {
		cancelAt.CompareAndSwap(0, time.Now().UnixNano())
		cancel()
	})
	c31HookN.Store(0)
	c31HookFired.Store(0)
	c31HookCancel.Store(&cancelOnce)
	c31HookTarget.Store(int64(c.AtHook))
	defer c31HookTarget.Store(0)

	type ret struct {
		err error
		at  time.Time
		pan any
	}
	done := make(chan ret, 1)
	goid := make(chan string, 1)
	go func() {
		goid <- curGoid()
		var rr ret
		defer func() {
			if e := recover(); e != nil {
				rr.pan = e
			}
			rr.at = time.Now()
			done <- rr
		}()
		rr.err = r.Run(ctx, f)
	}()
	id := <-goid
	var got ret
	finished := false
	select {
	case got = <-done:
		finished = true
	case <-time.After(time.Duration(c.CancelUS) * time.Microsecond):
	}
	if finished && cancelAt.Load() == 0 {
		return mon.Result{Verdict: mon.OutOfDomain, Reason: "finished-before-cancel", Detail: fmt.Sprintf("%s\nerr=%v stdout=%q", c.Src, got.err, clip(out.String(), 200))}
	}
	cancelOnce()
	cancelReturned := time.Now()
	t0 := time.Unix(0, cancelAt.Load())
	res.Evals = 1
	for _, t := range c.Tags {
		res.Count(t, 1)
	}
	if c.AtHook > 0 && c31HookFired.Load() > 0 {
		res.Count("cancelled-at-hook", 1)
	} else {
		res.Count("cancelled-at-instant", 1)
	}
	bound := c31Kill + c31Margin
	if !finished {
		select {
		case got = <-done:
			finished = true
		case <-time.After(time.Until(t0.Add(bound))):
		}
	}
	if finished && got.at.Before(t0) {
		return mon.Result{Verdict: mon.OutOfDomain, Reason: "finished-before-cancel", Detail: fmt.Sprintf("%s\nerr=%v stdout=%q", c.Src, got.err, clip(out.String(), 200))}
	}
	if finished {
		lat := got.at.Sub(t0)
		if got.pan != nil {
			return mon.Result{Verdict: mon.OutOfDomain, Reason: "panic(C28)", Detail: fmt.Sprint(got.pan)}
		}
		if got.err == nil && !got.at.After(cancelReturned) {
			// Run came back while cancel() was still being called: it had finished by itself
			return mon.Result{Verdict: mon.OutOfDomain, Reason: "finished-before-cancel", Detail: c.Src}
		}
		if got.err == nil {
			res.Fail("no-error-after-cancel", fmt.Sprintf("program (cancelled %v after start, hook %d):\n%s\nRun returned nil %v after the cancel although the program cannot finish by itself; stdout=%q", time.Duration(c.CancelUS)*time.Microsecond, c.AtHook, c.Src, lat, clip(out.String(), 200)))
			return res
		}
		switch {
		case lat < 50*time.Millisecond:
			res.Count("returned<50ms", 1)
		case lat < 400*time.Millisecond:
			res.Count("returned<400ms", 1)
		default:
			res.Count("returned<bound", 1)
		}
		res.Hash = mon.HashOf(c.Src, c.CancelUS, c.AtHook)
		res.Nontriv = true
		res.Sample = map[string]any{"src": clip(c.Src, 160), "cancel_after_us": c.CancelUS, "at_hook": c.AtHook, "returned_after_ms": lat.Milliseconds(), "err": clip(got.err.Error(), 80)}
		return res
	}
	// not back within the bound: is anything still moving?
	d1 := allStacks()
	time.Sleep(time.Second)
	d2 := allStacks()
	s1, f1, ok1 := goroutineBlock(d1, id)
	s2, f2, ok2 := goroutineBlock(d2, id)
	blocked := func(s string) bool {
		for _, w := range []string{"chan receive", "chan send", "select", "IO wait", "semacquire", "sync.WaitGroup.Wait", "sync.Cond.Wait", "syscall", "sync.Mutex.Lock", "sleep"} {
			if strings.HasPrefix(s, w) {
				return true
			}
		}
		return false
	}
	describe := func() string {
		top := f2
		if len(top) > 12 {
			top = top[:12]
		}
		return fmt.Sprintf("goroutine running Run: state %q then %q; frames:\n    %s", s1, s2, strings.Join(top, "\n    "))
	}
	if ok1 && ok2 && blocked(s1) && blocked(s2) && strings.Join(f1, "|") == strings.Join(f2, "|") {
		res.Fail("run-blocked-after-cancel", fmt.Sprintf("program (cancelled %v after start, hook %d):\n%s\nRun had not returned %v after the cancel and made no progress over one further second.\n%s", time.Duration(c.CancelUS)*time.Microsecond, c.AtHook, c.Src, bound, describe()))
		return res
	}
	select {
	case got = <-done:
		return mon.Result{Verdict: mon.Inconclusive, Reason: "slow-but-returned", Detail: fmt.Sprintf("%s\nreturned %v after the cancel", c.Src, got.at.Sub(t0))}
	case <-time.After(30 * time.Second):
	}
	d3 := allStacks()
	s3, f3, _ := goroutineBlock(d3, id)
	f2, s2 = f3, s3
	res.Fail("run-still-executing-after-cancel", fmt.Sprintf("program (cancelled %v after start, hook %d):\n%s\nRun had not returned %v after the cancel.\n%s", time.Duration(c.CancelUS)*time.Microsecond, c.AtHook, c.Src, bound+31*time.Second, describe()))
	return res
}
