package props

import (
	"bytes"
	"fmt"
	"math/rand/v2"
	"reflect"
	"strings"

	"mvdan.cc/sh/v3/syntax"
	"verif/mon"
)

// C09: source positions point at the source they describe.
type c09 struct{ base }

func init() { mon.Register(&c09{}) }

func (*c09) ID() string { return "C09" }
func (*c09) Rule() string {
	return "parseable inputs from the corpus, the grammar generator (all variants, hostile mode with CRLF / escaped newlines) and mutants; for every Pos field of every node (found by reflection): offset within the input, line/column recomputed from the offset, Pos() not after End(), the source text at keyword/operator/quote/literal positions, top-level and nested statement order, child span within parent span (here-document bodies excepted). Non-trivial: >= 5 position fields checked; distinct: hash of (source, variant)."
}
func (*c09) NumCases(tier string) int               { return tierN(tier, 6000, 150000) }
func (*c09) MinNontrivial(tier string) int          { return tierN(tier, 3000, 60000) }
func (*c09) New() any                               { return &SynCase{} }
func (*c09) Shrink(p any, still func(any) bool) any { return shrinkSyn(p, still) }
func (*c09) Assumptions() []string {
	return []string{"columns are counted in bytes, as the package documents", "recovered positions are not positions in the input and are not produced here (no RecoverErrors)", "Redirect.Hdoc lies after its statement's line by construction and is exempt from the containment clause"}
}

func (p *c09) Gen(i int, r *rand.Rand) any {
	c := p.synInputX(r, synMustParse, false, true, true)
	if c == nil {
		return nil
	}
	c.Extra = r.IntN(2)
	return c
}

var nodeIface = reflect.TypeOf((*syntax.Node)(nil)).Elem()

// tokenAt lists, per (type, field), the texts one of which must be found in
// the source at that position.
func tokenTexts(n syntax.Node, field string) []string {
	switch x := n.(type) {
	case *syntax.Comment:
		if field == "Hash" {
			return []string{"#"}
		}
	case *syntax.Stmt:
		if field == "Semicolon" {
			return []string{";", "&", "|&", "&|", "&!"}
		}
	case *syntax.Redirect:
		if field == "OpPos" {
			// zsh spells the clobber operators with ! as well
			op := x.Op.String()
			alts := []string{op, strings.ReplaceAll(op, "|", "!")}
			if strings.HasPrefix(op, "&>") { // zsh also accepts >& and >>& spellings
				alts = append(alts, ">&", ">>&")
			}
			return alts
		}
	case *syntax.Subshell:
		if field == "Lparen" {
			return []string{"("}
		}
		if field == "Rparen" {
			return []string{")"}
		}
	case *syntax.Block:
		if field == "Lbrace" {
			return []string{"{"}
		}
		if field == "Rbrace" {
			return []string{"}"}
		}
	case *syntax.IfClause:
		switch field {
		case "Position":
			return []string{"if", "elif", "else"}
		case "ThenPos":
			return []string{"then", "{"}
		case "FiPos":
			return []string{"fi", "}"}
		}
	case *syntax.WhileClause:
		switch field {
		case "WhilePos":
			return []string{"while", "until"}
		case "DoPos":
			return []string{"do", "{"}
		case "DonePos":
			return []string{"done", "}"}
		}
	case *syntax.ForClause:
		switch field {
		case "ForPos":
			return []string{"for", "select", "foreach", "repeat"}
		case "DoPos":
			return []string{"do", "{"}
		case "DonePos":
			return []string{"done", "}", "end"}
		}
	case *syntax.WordIter:
		if field == "InPos" {
			return []string{"in", "("}
		}
	case *syntax.CStyleLoop:
		if field == "Lparen" {
			return []string{"(("}
		}
		if field == "Rparen" {
			return []string{"))"}
		}
	case *syntax.BinaryCmd:
		if field == "OpPos" {
			return []string{x.Op.String()}
		}
	case *syntax.FuncDecl:
		if field == "Position" {
			if x.RsrvWord {
				return []string{"function"}
			}
		}
	case *syntax.SglQuoted:
		if field == "Left" {
			if x.Dollar {
				return []string{"$'"}
			}
			return []string{"'"}
		}
		if field == "Right" {
			return []string{"'"}
		}
	case *syntax.DblQuoted:
		if field == "Left" {
			if x.Dollar {
				return []string{"$\""}
			}
			return []string{"\""}
		}
		if field == "Right" {
			return []string{"\""}
		}
	case *syntax.CmdSubst:
		if field == "Left" {
			return []string{"$(", "`", "${ ", "${|", "${\t", "${\n", "\\`", "\\\\`", "\\\\\\`"}
		}
		if field == "Right" {
			return []string{")", "`", "}", "\\`", "\\\\`", "\\\\\\`"}
		}
	case *syntax.ParamExp:
		if field == "Dollar" {
			return []string{"$"}
		}
		if field == "Rbrace" {
			return []string{"}"}
		}
	case *syntax.ArithmExp:
		if field == "Left" {
			return []string{"$((", "$["}
		}
		if field == "Right" {
			return []string{"))", "]"}
		}
	case *syntax.ArithmCmd:
		if field == "Left" {
			return []string{"(("}
		}
		if field == "Right" {
			return []string{"))"}
		}
	case *syntax.BinaryArithm:
		if field == "OpPos" {
			return []string{x.Op.String()}
		}
	case *syntax.UnaryArithm:
		if field == "OpPos" {
			return []string{x.Op.String()}
		}
	case *syntax.ParenArithm:
		if field == "Lparen" {
			return []string{"("}
		}
		if field == "Rparen" {
			return []string{")"}
		}
	case *syntax.CaseClause:
		switch field {
		case "Case":
			return []string{"case"}
		case "In":
			return []string{"in", "{"}
		case "Esac":
			return []string{"esac", "}"}
		}
	case *syntax.CaseItem:
		if field == "OpPos" {
			return []string{x.Op.String()}
		}
	case *syntax.TestClause:
		if field == "Left" {
			return []string{"[["}
		}
		if field == "Right" {
			return []string{"]]"}
		}
	case *syntax.BinaryTest:
		if field == "OpPos" {
			if x.Op == syntax.TsMatchShort || x.Op == syntax.TsMatch {
				return []string{"=", "=="}
			}
			return []string{x.Op.String()}
		}
	case *syntax.UnaryTest:
		if field == "OpPos" {
			// several operators have aliases (-h/-L, -a/-e): only the shape is checked
			if strings.HasPrefix(x.Op.String(), "-") {
				return []string{"-"}
			}
			return []string{x.Op.String()}
		}
	case *syntax.ParenTest:
		if field == "Lparen" {
			return []string{"("}
		}
		if field == "Rparen" {
			return []string{")"}
		}
	case *syntax.ArrayExpr:
		if field == "Lparen" {
			return []string{"("}
		}
		if field == "Rparen" {
			return []string{")"}
		}
	case *syntax.ExtGlob:
		if field == "OpPos" {
			return []string{x.Op.String()}
		}
	case *syntax.ProcSubst:
		if field == "OpPos" {
			return []string{x.Op.String()}
		}
		if field == "Rparen" {
			return []string{")"}
		}
	case *syntax.TimeClause:
		if field == "Time" {
			return []string{"time"}
		}
	case *syntax.CoprocClause:
		if field == "Coproc" {
			return []string{"coproc"}
		}
	case *syntax.LetClause:
		if field == "Let" {
			return []string{"let"}
		}
	case *syntax.TestDecl:
		if field == "Position" {
			return []string{"@test"}
		}
	}
	return nil
}

// plainSource reports whether offsets map 1:1 onto what the lexer saw: no NUL
// bytes (skipped), no CR (CRLF folding) and no backslash-newline.
func hostileBytes(src []byte) (nul, cr, escnl, bquote bool) {
	return bytes.IndexByte(src, 0) >= 0, bytes.IndexByte(src, '\r') >= 0, bytes.Contains(src, []byte("\\\n")), bytes.IndexByte(src, '`') >= 0
}

func (p *c09) Run(payload any) mon.Result {
	c := payload.(*SynCase)
	lang := c.lang()
	var res mon.Result
	src := c.Src
	f, err := parseAs(src, lang, c.Extra == 0)
	if err != nil {
		return mon.Result{Verdict: mon.OutOfDomain, Reason: "does-not-parse"}
	}
	if p.env.Findings.Active("C09-coproc-name-then-assigns") {
		carved := false
		syntax.Walk(f, func(n syntax.Node) bool {
			if cc, ok := n.(*syntax.CoprocClause); ok && cc.Stmt != nil {
				if ce, ok := cc.Stmt.Cmd.(*syntax.CallExpr); ok && len(ce.Assigns) > 0 && len(ce.Args) > 0 {
					carved = true
				}
			}
			return !carved
		})
		if carved {
			return mon.Result{Verdict: mon.OutOfDomain, Reason: "carved:C09-coproc-name-then-assigns"}
		}
	}
	res.Hash = mon.HashOf(c.Src, c.Lang)
	res.Count("source:"+c.Source, 1)
	res.Count("lang:"+c.Lang, 1)
	nul, cr, escnl, bq := hostileBytes(src)
	if nul {
		res.Count("inputs_with_NUL", 1)
	}
	if cr {
		res.Count("inputs_with_CR", 1)
	}
	if escnl {
		res.Count("inputs_with_escaped_newline", 1)
	}
	if bq {
		res.Count("inputs_with_backquotes", 1)
	}
	// line starts
	lineStart := []int{0}
	for i, b := range src {
		if b == '\n' {
			lineStart = append(lineStart, i+1)
		}
	}
	checked := 0
	fail := func(reason, msg string) {
		res.Fail(reason, fmt.Sprintf("lang=%s src=%s\n%s", c.Lang, c.SrcQ, msg))
	}
	checkPos := func(n syntax.Node, name string, pos syntax.Pos) bool {
		if !pos.IsValid() {
			return true
		}
		checked++
		off := int(pos.Offset())
		if off > len(src) {
			fail("offset-out-of-input", fmt.Sprintf("%T.%s offset %d > len %d", n, name, off, len(src)))
			return false
		}
		line := int(pos.Line())
		if line < 1 || line > len(lineStart) {
			fail("line-out-of-input", fmt.Sprintf("%T.%s = %v but the input has %d lines", n, name, pos, len(lineStart)))
			return false
		}
		wantLine := 1 + bytes.Count(src[:off], []byte("\n"))
		wantCol := off - lineStart[wantLine-1] + 1
		if line != wantLine || int(pos.Col()) != wantCol {
			if p.knownSkew(src, off, line, int(pos.Col()), wantLine, wantCol, lineStart) {
				res.Count("known:C09-linecol-skew", 1)
				if res.Verdict != mon.Violated {
					res.Verdict, res.Reason = mon.Known, "C09-linecol-skew"
				}
				return true
			}
			fail("line-col-disagree-with-offset", fmt.Sprintf("%T.%s = offset %d line:col %d:%d, but offset %d is at %d:%d", n, name, off, line, pos.Col(), off, wantLine, wantCol))
			return false
		}
		if texts := tokenTexts(n, name); texts != nil {
			ok := false
			// the lexer skips escaped newlines (also backslash CR LF) inside tokens
			hi := off + 40
			if hi > len(src) {
				hi = len(src)
			}
			at := bytes.ReplaceAll(bytes.ReplaceAll(src[off:hi], []byte("\\\r\n"), nil), []byte("\\\n"), nil)
			at = bytes.ReplaceAll(at, []byte{0}, nil) // NUL bytes are skipped by the lexer
			for _, t := range texts {
				if bytes.HasPrefix(at, []byte(t)) {
					ok = true
					break
				}
			}
			if !ok {
				end := off + 12
				if end > len(src) {
					end = len(src)
				}
				fail("token-text-mismatch", fmt.Sprintf("%T.%s at offset %d (%v): source has %q, want one of %q", n, name, off, pos, src[off:end], texts))
				return false
			}
			res.Count("token_texts_checked", 1)
		}
		return true
	}
	type span struct{ lo, hi syntax.Pos }
	var stack []syntax.Node
	ok := true
	// nodes are enumerated by reflection (oracle independent of syntax.Walk)
	reflectWalk(f, func(n syntax.Node) bool {
		if !ok {
			return false
		}
		if n == nil {
			stack = stack[:len(stack)-1]
			return true
		}
		var parent syntax.Node
		if len(stack) > 0 {
			parent = stack[len(stack)-1]
		}
		stack = append(stack, n)
		// every Pos field
		v := reflect.ValueOf(n)
		if v.Kind() == reflect.Pointer {
			v = v.Elem()
		}
		if v.Kind() == reflect.Struct {
			for i := 0; i < v.NumField(); i++ {
				if v.Type().Field(i).Type == posType0 && v.Type().Field(i).IsExported() {
					if !checkPos(n, v.Type().Field(i).Name, v.Field(i).Interface().(syntax.Pos)) {
						ok = false
						return false
					}
				}
			}
		}
		np, ne := n.Pos(), n.End()
		if np.IsValid() && ne.IsValid() {
			if np.After(ne) {
				fail("pos-after-end", fmt.Sprintf("%T: Pos %v is after End %v", n, np, ne))
				ok = false
				return false
			}
			if !checkPos(n, "Pos()", np) || !checkPos(n, "End()", ne) {
				ok = false
				return false
			}
		}
		// literal text
		inBody := false
		for _, a := range stack {
			if r, isR := a.(*syntax.Redirect); isR && r.Hdoc != nil {
				for _, b := range stack {
					if b == syntax.Node(r.Hdoc) {
						inBody = true // a body literal's end includes the delimiter line
					}
				}
			}
		}
		if l, isLit := n.(*syntax.Lit); isLit && !inBody && !nul && !cr && !escnl && !bq && l.ValuePos.IsValid() && l.ValueEnd.IsValid() {
			lo, hi := int(l.ValuePos.Offset()), int(l.ValueEnd.Offset())
			if lo <= hi && hi <= len(src) {
				{
					if string(src[lo:hi]) != l.Value {
						// here-doc bodies with <<- have their tabs stripped from the value
						if strings.ReplaceAll(string(src[lo:hi]), "\t", "") != strings.ReplaceAll(l.Value, "\t", "") {
							fail("literal-text-mismatch", fmt.Sprintf("Lit %q spans source %q (%v-%v)", l.Value, src[lo:hi], l.ValuePos, l.ValueEnd))
							ok = false
							return false
						}
					}
					res.Count("literal_texts_checked", 1)
				}
			}
		}
		// containment
		if parent != nil && np.IsValid() && ne.IsValid() {
			pp, pe := parent.Pos(), parent.End()
			inHdoc := false
			if r, isR := parent.(*syntax.Redirect); isR && r.Hdoc == n {
				inHdoc = true
			}
			for _, a := range stack {
				if r, isR := a.(*syntax.Redirect); isR && r.Hdoc != nil {
					for _, b := range stack {
						if b == syntax.Node(r.Hdoc) {
							inHdoc = true
						}
					}
				}
			}
			if _, isC := n.(*syntax.Comment); isC {
				inHdoc = true // comments attach to the following node and may precede their parent
			}
			if !inHdoc && pp.IsValid() && pe.IsValid() && (pp.After(np) || ne.After(pe)) {
				if hasHeredocNode(parent) {
					res.Count("containment_skipped_heredoc_parent", 1)
				} else {
					fail("child-outside-parent", fmt.Sprintf("%T %v-%v is not within its parent %T %v-%v", n, np, ne, parent, pp, pe))
					ok = false
					return false
				}
			}
		}
		return true
	})
	if !ok {
		return res
	}
	// statement order in every statement list
	syntax.Walk(f, func(n syntax.Node) bool {
		if n == nil || !ok {
			return ok
		}
		v := reflect.ValueOf(n)
		if v.Kind() == reflect.Pointer {
			v = v.Elem()
		}
		if v.Kind() != reflect.Struct {
			return true
		}
		for i := 0; i < v.NumField(); i++ {
			if ss, isS := v.Field(i).Interface().([]*syntax.Stmt); isS {
				for k := 1; k < len(ss); k++ {
					if !ss[k].Pos().After(ss[k-1].Pos()) {
						fail("statements-out-of-order", fmt.Sprintf("%T.%s[%d] at %v does not come after [%d] at %v", n, v.Type().Field(i).Name, k, ss[k].Pos(), k-1, ss[k-1].Pos()))
						ok = false
						return false
					}
				}
			}
		}
		return true
	})
	if !ok {
		return res
	}
	res.Nontriv = checked >= 5
	res.Count("positions_checked", checked)
	res.Evals = 1
	res.Sample = map[string]any{"src": truncStr(c.SrcQ, 200), "lang": c.Lang, "positions": checked}
	return res
}

var posType0 = reflect.TypeOf(syntax.Pos{})

func hasHeredocNode(n syntax.Node) bool { return hasHeredoc(n) }

// knownSkew is the difference predicate of finding C09-linecol-skew (inactive
// unless listed).
func (p *c09) knownSkew(src []byte, off, line, col, wantLine, wantCol int, lineStart []int) bool {
	if !p.env.Findings.Active("C09-posaddcol-across-escaped-newline") {
		return false
	}
	// exact shape: the position was derived by adding columns to an earlier
	// position on a previous line, across an escaped newline: the claimed line
	// is before the real one and an escaped newline lies in between.
	if line >= wantLine || line < 1 || line > len(lineStart) {
		return false
	}
	return bytes.Contains(src[lineStart[line-1]:off], []byte("\\\n"))
}

// reflectWalk calls fn for every node reachable through exported fields, in
// depth-first order, and fn(nil) after each node's children, like syntax.Walk
// but without relying on it. Returning false prunes.
func reflectWalk(root syntax.Node, fn func(syntax.Node) bool) {
	var visitValue func(v reflect.Value)
	var visitNode func(n syntax.Node)
	visitNode = func(n syntax.Node) {
		if !fn(n) {
			return
		}
		v := reflect.ValueOf(n)
		if v.Kind() == reflect.Pointer {
			v = v.Elem()
		}
		if v.Kind() == reflect.Struct {
			for i := 0; i < v.NumField(); i++ {
				if v.Type().Field(i).IsExported() {
					visitValue(v.Field(i))
				}
			}
		}
		fn(nil)
	}
	visitValue = func(v reflect.Value) {
		switch v.Kind() {
		case reflect.Interface:
			if !v.IsNil() {
				if n, ok := v.Interface().(syntax.Node); ok {
					visitNode(n)
				}
			}
		case reflect.Pointer:
			if v.IsNil() {
				return
			}
			if n, ok := v.Interface().(syntax.Node); ok {
				visitNode(n)
				return
			}
			if v.Elem().Kind() == reflect.Struct && v.Elem().Type() != posType0 {
				for i := 0; i < v.Elem().NumField(); i++ {
					if v.Elem().Type().Field(i).IsExported() {
						visitValue(v.Elem().Field(i))
					}
				}
			}
		case reflect.Slice:
			for i := 0; i < v.Len(); i++ {
				e := v.Index(i)
				if e.Kind() == reflect.Struct && e.Type() == reflect.TypeOf(syntax.Comment{}) {
					c := e.Interface().(syntax.Comment)
					visitNode(&c)
					continue
				}
				visitValue(e)
			}
		}
	}
	visitNode(root)
}
