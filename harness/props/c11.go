package props

import (
	"bytes"
	"fmt"
	"math/rand/v2"
	"reflect"
	"strings"

	"mvdan.cc/sh/v3/syntax"
	"verif/mon"
	"verif/oracle"
)

// C11: language variants gate their features consistently.
type c11 struct{ base }

func init() { mon.Register(&c11{}) }

func (*c11) ID() string { return "C11" }
func (*c11) Rule() string {
	return "inputs generated with constructs of every variant mixed together (grammar generator in mixed mode, corpus, token-level mutants), each offered to all five variants: (a) a tree accepted in POSIX mode must contain none of the Bash/mksh/zsh-only constructs the property names or the parser itself gates; (b) an input accepted as Bash must be accepted as Bats with a position-identical tree; (c) an input that parses must parse position-identically with RecoverErrors(1|3|100), with no recovered position anywhere. Non-trivial: at least one variant accepts and one rejects, or the POSIX tree has >= 5 nodes; distinct: hash of the source."
}
func (*c11) NumCases(tier string) int               { return tierN(tier, 8000, 200000) }
func (*c11) MinNontrivial(tier string) int          { return tierN(tier, 2500, 60000) }
func (*c11) New() any                               { return &SynCase{} }
func (*c11) Shrink(p any, still func(any) bool) any { return shrinkSyn(p, still) }
func (*c11) Assumptions() []string {
	return []string{"the list of foreign constructs for clause (a) is: the property's examples plus every feature the parser gates through checkLang somewhere; arithmetic operators POSIX leaves optional are not in it"}
}

func (p *c11) Gen(i int, r *rand.Rand) any {
	c := p.synInputX(r, synAny, true, false, true)
	if c == nil {
		return nil
	}
	c.Extra = []int{1, 3, 100}[r.IntN(3)]
	return c
}

// foreignInPOSIX returns a description of the first non-POSIX construct found.
func foreignInPOSIX(f *syntax.File) string {
	found := ""
	hit := func(s string, n syntax.Node) {
		if found == "" {
			found = fmt.Sprintf("%s (%T at %v)", s, n, n.Pos())
		}
	}
	syntax.Walk(f, func(n syntax.Node) bool {
		if found != "" {
			return false
		}
		switch x := n.(type) {
		case *syntax.TestClause:
			hit("[[ ]]", x)
		case *syntax.ArithmCmd:
			hit("(( ))", x)
		case *syntax.LetClause:
			hit("let clause", x)
		case *syntax.DeclClause:
			hit("declare clause", x)
		case *syntax.CoprocClause:
			hit("coproc", x)
		case *syntax.ProcSubst:
			hit("process substitution", x)
		case *syntax.ExtGlob:
			hit("extended glob", x)
		case *syntax.ArrayExpr:
			hit("array literal", x)
		case *syntax.TestDecl:
			hit("bats test declaration", x)
		case *syntax.FlagsArithm:
			hit("zsh arithmetic flags", x)
		case *syntax.Assign:
			if x.Index != nil {
				hit("indexed assignment", x)
			}
			if x.Append {
				hit("+= assignment", x)
			}
		case *syntax.SglQuoted:
			if x.Dollar {
				hit("$'' string", x)
			}
		case *syntax.DblQuoted:
			if x.Dollar {
				hit("$\"\" string", x)
			}
		case *syntax.CStyleLoop:
			hit("c-style for", x)
		case *syntax.ForClause:
			if x.Select {
				hit("select", x)
			}
			if x.Braces {
				hit("for loop with braces", x)
			}
		case *syntax.FuncDecl:
			if x.RsrvWord {
				hit("function keyword", x)
			}
			if x.Name == nil || len(x.Names) > 0 {
				hit("anonymous/multi-name function", x)
			}
		case *syntax.CaseClause:
			if x.Braces {
				hit("case with braces", x)
			}
		case *syntax.CaseItem:
			if x.Op != syntax.Break {
				hit("case operator "+x.Op.String(), x)
			}
		case *syntax.CmdSubst:
			if x.TempFile || x.ReplyVar {
				hit("mksh ${ ;} substitution", x)
			}
		case *syntax.ArithmExp:
			if x.Bracket {
				hit("$[ ]", x)
			}
			if x.Unsigned {
				hit("unsigned arithmetic", x)
			}
		case *syntax.BinaryCmd:
			if x.Op == syntax.PipeAll {
				hit("|&", x)
			}
		case *syntax.Stmt:
			if x.Coprocess {
				hit("|& coprocess", x)
			}
			if x.Disown {
				hit("&| disown", x)
			}
		case *syntax.Redirect:
			switch x.Op {
			case syntax.RdrOut, syntax.AppOut, syntax.RdrIn, syntax.RdrInOut, syntax.DplIn, syntax.DplOut, syntax.RdrClob, syntax.Hdoc, syntax.DashHdoc:
			default:
				hit("redirect operator "+x.Op.String(), x)
			}
			if x.N != nil && strings.HasPrefix(x.N.Value, "{") {
				hit("{varname} redirect", x)
			}
		case *syntax.ParamExp:
			switch {
			case x.Excl, x.Width, x.IsSet, x.Index != nil, x.Slice != nil, x.Repl != nil, x.Names != 0, x.Flags != nil, len(x.Modifiers) > 0, x.NestedParam != nil,
				x.Split != syntax.OptUnset, x.GlobSubst != syntax.OptUnset, x.RcExpand != syntax.OptUnset:
				hit("non-POSIX parameter expansion form", x)
			}
			if x.Exp != nil {
				switch x.Exp.Op {
				case syntax.AlternateUnset, syntax.AlternateUnsetOrNull, syntax.DefaultUnset, syntax.DefaultUnsetOrNull,
					syntax.ErrorUnset, syntax.ErrorUnsetOrNull, syntax.AssignUnset, syntax.AssignUnsetOrNull,
					syntax.RemSmallSuffix, syntax.RemLargeSuffix, syntax.RemSmallPrefix, syntax.RemLargePrefix:
				default:
					hit("parameter expansion operator "+x.Exp.Op.String(), x)
				}
			}
		}
		return true
	})
	return found
}

func hasRecoveredPos(n syntax.Node) bool {
	found := false
	syntax.Walk(n, func(x syntax.Node) bool {
		if x == nil || found {
			return !found
		}
		v := reflect.ValueOf(x)
		if v.Kind() == reflect.Pointer {
			v = v.Elem()
		}
		if v.Kind() == reflect.Struct {
			for i := 0; i < v.NumField(); i++ {
				if v.Type().Field(i).Type == posType0 && v.Field(i).Interface().(syntax.Pos).IsRecovered() {
					found = true
				}
			}
		}
		return !found
	})
	return found
}

func (p *c11) Run(payload any) mon.Result {
	c := payload.(*SynCase)
	var res mon.Result
	res.Evals = 0
	trees := map[syntax.LangVariant]*syntax.File{}
	errs := map[syntax.LangVariant]error{}
	accepted, rejected := 0, 0
	for _, l := range Variants {
		res.Evals++
		f, err := syntax.NewParser(syntax.Variant(l), syntax.KeepComments(true)).Parse(bytes.NewReader(c.Src), "")
		if err != nil {
			errs[l] = err
			rejected++
			res.Count("rejected:"+l.String(), 1)
			continue
		}
		trees[l] = f
		accepted++
		res.Count("accepted:"+l.String(), 1)
	}
	res.Hash = mon.HashOf(c.Src)
	res.Count("source:"+c.Source, 1)
	fail := func(reason, msg string) mon.Result {
		res.Fail(reason, fmt.Sprintf("src=%s\n%s", c.SrcQ, msg))
		return res
	}
	// (a)
	if f := trees[syntax.LangPOSIX]; f != nil {
		if what := foreignInPOSIX(f); what != "" {
			if p.env.Findings.Active("C11-posix-accepts-function-keyword") && strings.HasPrefix(what, "function keyword") {
				res.Verdict, res.Reason = mon.Known, "C11-posix-accepts-function-keyword"
			} else {
				return fail("posix-accepts-foreign-construct", "POSIX mode accepted: "+what)
			}
		}
		res.Nontriv = res.Nontriv || nodeCount(f) >= 5
	}
	// (b)
	if fb := trees[syntax.LangBash]; fb != nil {
		ft := trees[syntax.LangBats]
		if ft == nil {
			if p.env.Findings.Active("C11-bats-test-word") && bytes.Contains(c.Src, []byte("@test")) {
				res.Verdict, res.Reason = mon.Known, "C11-bats-test-word"
			} else {
				return fail("bash-accepted-bats-rejected", fmt.Sprintf("Bash accepts, Bats: %v", errs[syntax.LangBats]))
			}
		} else if a, b := oracle.Canon(fb, posCanon), oracle.Canon(ft, posCanon); a != b {
			if p.env.Findings.Active("C11-bats-test-word") && bytes.Contains(c.Src, []byte("@test")) {
				res.Verdict, res.Reason = mon.Known, "C11-bats-test-word"
			} else {
				return fail("bash-bats-trees-differ", oracle.FirstDiff(a, b))
			}
		}
	}
	// (c)
	for _, l := range Variants {
		f := trees[l]
		if f == nil {
			continue
		}
		res.Evals++
		fr, err := syntax.NewParser(syntax.Variant(l), syntax.KeepComments(true), syntax.RecoverErrors(c.Extra)).Parse(bytes.NewReader(c.Src), "")
		if err != nil {
			if l == syntax.LangZsh && bytes.Contains(c.Src, []byte("$((")) && p.env.Findings.Active("C11-zsh-recover-arith-fallback") {
				res.Verdict, res.Reason = mon.Known, "C11-zsh-recover-arith-fallback"
				continue
			}
			return fail("recover-mode-rejects-valid-input", fmt.Sprintf("lang=%s RecoverErrors(%d): %v", l, c.Extra, err))
		}
		if hasRecoveredPos(fr) {
			return fail("recovered-position-in-valid-input", fmt.Sprintf("lang=%s RecoverErrors(%d): tree has a recovered position", l, c.Extra))
		}
		if a, b := oracle.Canon(f, posCanon), oracle.Canon(fr, posCanon); a != b {
			return fail("recover-mode-tree-differs", fmt.Sprintf("lang=%s RecoverErrors(%d)\n%s", l, c.Extra, oracle.FirstDiff(a, b)))
		}
		res.Count("recover_checked", 1)
	}
	if accepted > 0 && rejected > 0 {
		res.Nontriv = true
		res.Count("variants_disagree_on_acceptance", 1)
	}
	res.Sample = map[string]any{"src": truncStr(c.SrcQ, 160), "accepted": accepted, "rejected": rejected}
	return res
}
