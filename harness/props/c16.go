package props

import (
	"bytes"
	"fmt"
	"math/rand/v2"
	"os"
	"regexp"
	"strconv"
	"strings"
	"time"

	"mvdan.cc/sh/v3/expand"
	"mvdan.cc/sh/v3/syntax"
	"verif/mon"
	"verif/oracle"
)

// C16: brace expansion matches bash.
type c16 struct{ base }

func init() { mon.Register(&c16{}) }

type BraceCase struct {
	Kind  string   `json:"kind"`
	Chunk int      `json:"chunk"`
	Words []string `json:"words,omitempty"`
}

func (*c16) ID() string { return "C16" }
func (*c16) Rule() string {
	return "words made of literal characters over the alphabet { } , . 0 1 a z - \\ : exhaustively all words up to length 4 (11110 words in 38 chunks), then an exhaustive template grammar (pre{X,Y}post, {X..Y}, {X..Y..Z}, nested, adjacent, unbalanced, escaped) over operands including zero-padded, negative and near-int64-limit numbers and letters, then random words up to length 16; words ending in an unescaped backslash excluded. For each word: SplitBraces must leave the printed form unchanged and report whether a BraceExp resulted; expand.Fields (no globbing, empty environment) must give bash's list (`set -f; set -- WORD; printf`), with an error only if bash's list exceeds 16384 elements (then required). Empty words are dropped on both sides (bash removes unquoted null words after brace expansion; C22 covers that stage). Non-trivial: the word contains '{'; distinct: hash of the chunk."
}
func (*c16) NumCases(tier string) int      { return tierN(tier, 38+30+40, 38+30+3000) }
func (*c16) MinNontrivial(tier string) int { return tierN(tier, 80, 2000) }
func (*c16) New() any                      { return &BraceCase{} }
func (*c16) CaseTimeout() time.Duration    { return 300 * time.Second }
func (*c16) Assumptions() []string {
	return []string{"bash 5.2.15 is ground truth", "each case is a chunk of up to 300 words run in one batched bash script with per-word frames"}
}

var braceAlpha = []string{"{", "}", ",", ".", "0", "1", "a", "z", "-", "\\"}

func braceExhaustive() []string {
	var out []string
	n := len(braceAlpha)
	var rec func(prefix string, left int)
	rec = func(prefix string, left int) {
		if prefix != "" {
			out = append(out, prefix)
		}
		if left == 0 {
			return
		}
		for i := 0; i < n; i++ {
			rec(prefix+braceAlpha[i], left-1)
		}
	}
	rec("", 4)
	return out
}

var braceOperands = []string{"-2", "0", "1", "07", "010", "-05", "9", "a", "e", "Z", "9223372036854775806", "9223372036854775807", "-9223372036854775808", "1.5", "", "00", "-0", "3", "A", "_", "100", "12", "-12"}

func braceTemplates() []string {
	var out []string
	ops := braceOperands
	for _, x := range ops {
		for _, y := range ops {
			out = append(out, "{"+x+".."+y+"}", "p{"+x+","+y+"}q", "{"+x+".."+y+"..2}", "{"+x+".."+y+"..-1}")
		}
	}
	for _, x := range []string{"1", "a", "3"} {
		for _, y := range []string{"5", "e", "1"} {
			for _, z := range []string{"0", "1", "2", "-2", "07", "a", ""} {
				out = append(out, "{"+x+".."+y+".."+z+"}")
			}
		}
	}
	out = append(out, "{a,b}{c,d}", "{a,{b,c}}", "{{a,b},c}", "a{b,c", "a}b{c,d}", "{a,b}}", "{{a,b}", "\\{a,b}", "{a\\,b}", "{a,b\\}", "{a,b}\\", "{,}", "{,,}", "x{,}y", "{a}", "{}", "{..}", "{1..}", "{..1}", "{1...3}", "{1..3..}", "{a..c}{1..2}", "{1..16384}", "{1..16385}", "{0..20000}", "{1..3}{1..6000}", "{a,b}{1..9000}", "{01..10}", "{-1..1}", "{1..-1}", "{a..Z}", "{Z..a}", "{a..z..3}", "{1..10..0}", "${a,b}", "{a,b}$", "-{a,b}", "{a,b}.{c,d}", "{a..c..x}", "{a,b}{", "{a,b},{c,d}", "{0..9}{0..9}{0..9}", "{x,{1..3},y}")
	return out
}

func (p *c16) Gen(i int, r *rand.Rand) any {
	switch {
	case i < 38:
		return &BraceCase{Kind: "exhaustive", Chunk: i}
	case i < 68:
		return &BraceCase{Kind: "template", Chunk: i - 38}
	}
	c := &BraceCase{Kind: "random", Chunk: i}
	for k := 0; k < 200; k++ {
		var sb strings.Builder
		for l := 1 + r.IntN(16); l > 0; l-- {
			switch r.IntN(6) {
			case 0:
				sb.WriteString(braceOperands[r.IntN(len(braceOperands))])
			case 1:
				sb.WriteString("..")
			default:
				sb.WriteString(braceAlpha[r.IntN(len(braceAlpha))])
			}
		}
		w := sb.String()
		if len(w) > 40 {
			w = w[:40]
		}
		c.Words = append(c.Words, w)
	}
	return c
}

func chunkOf(all []string, k, n int) []string {
	per := (len(all) + n - 1) / n
	lo, hi := k*per, (k+1)*per
	if lo > len(all) {
		lo = len(all)
	}
	if hi > len(all) {
		hi = len(all)
	}
	return all[lo:hi]
}

// rangeTooBig keeps bash from building enormous lists.
func rangeTooBig(w string) bool {
	digits := 0
	for _, ch := range w {
		if ch >= '0' && ch <= '9' {
			digits++
			if digits > 6 && !strings.Contains(w, "922337203685477580") {
				return true
			}
		} else {
			digits = 0
		}
	}
	// ranges between an int64 extreme and a small number
	if strings.Contains(w, "922337203685477580") {
		for _, part := range strings.FieldsFunc(w, func(r rune) bool { return r == '{' || r == '}' || r == ',' }) {
			if strings.Contains(part, "..") && strings.Contains(part, "922337203685477580") {
				ends := strings.Split(part, "..")
				if len(ends) >= 2 && !(strings.Contains(ends[0], "922337203685477580") && strings.Contains(ends[1], "922337203685477580") && strings.HasPrefix(ends[0], "-") == strings.HasPrefix(ends[1], "-")) {
					return true
				}
			}
		}
	}
	return false
}

var charRangeRe = regexp.MustCompile(`\{([A-Za-z])\.\.([A-Za-z])`)

// rangeCrossesBackslash: a letter range between an upper-case and a lower-case
// letter contains '\\' (0x5C). What bash prints for that element is decided by
// quote removal, a later expansion stage, so such words are outside C16.
func rangeCrossesBackslash(w string) bool {
	for _, m := range charRangeRe.FindAllStringSubmatch(w, -1) {
		a, b := m[1][0], m[2][0]
		if a > b {
			a, b = b, a
		}
		if a <= '\\' && '\\' <= b {
			return true
		}
	}
	return false
}

var validSeqRe = regexp.MustCompile(`^(-?[0-9]+\.\.-?[0-9]+|[A-Za-z]\.\.[A-Za-z])(\.\.-?[0-9]+)?$`)

// literalCloseBrace is the carve-out of known finding C16-literal-close-brace.
// It pairs braces the way SplitBraces does (backslash escapes skipped) and
// reports a group without a top-level comma that is not a valid sequence and
// (a) has another '}' somewhere to its right (bash treats the group's own '}' as
// text and keeps scanning), or (b) holds a nested group next to a top-level
// ".." (bash then drops the outer braces).
func literalCloseBrace(w string) bool {
	type grp struct {
		start           int
		comma, dots, in bool
	}
	var st []grp
	for i := 0; i < len(w); i++ {
		switch w[i] {
		case '\\':
			i++
		case '{':
			if n := len(st); n > 0 {
				st[n-1].in = true
			}
			st = append(st, grp{start: i})
		case ',':
			if n := len(st); n > 0 {
				st[n-1].comma = true
			}
		case '.':
			if n := len(st); n > 0 && i+1 < len(w) && w[i+1] == '.' {
				st[n-1].dots = true
			}
		case '}':
			n := len(st)
			if n == 0 {
				continue
			}
			g := st[n-1]
			st = st[:n-1]
			if g.comma || validSeqRe.MatchString(w[g.start+1:i]) {
				continue
			}
			if strings.Contains(w[i+1:], "}") || (g.in && g.dots) {
				return true
			}
		}
	}
	return false
}

func dropEmpty(xs []string) []string {
	out := xs[:0:0]
	for _, x := range xs {
		if x != "" {
			out = append(out, x)
		}
	}
	return out
}

func (p *c16) Run(payload any) mon.Result {
	c := payload.(*BraceCase)
	var res mon.Result
	words := c.Words
	switch c.Kind {
	case "exhaustive":
		words = chunkOf(braceExhaustive(), c.Chunk, 38)
	case "template":
		words = chunkOf(braceTemplates(), c.Chunk, 30)
	}
	fail := func(reason, msg string) mon.Result {
		res.Fail(reason, msg)
		return res
	}
	type item struct {
		w      string
		fields []string
		err    error
	}
	var items []item
	printer := syntax.NewPrinter()
	withBrace := 0
	for _, w := range words {
		if endsInLoneBackslash([]byte(w)) || rangeTooBig(w) {
			res.Count("skipped_words", 1)
			continue
		}
		if c.Kind == "random" && p.env.Findings.Carved("C16-literal-close-brace") && literalCloseBrace(w) {
			res.Count("carved_literal_close_brace", 1)
			continue
		}
		if rangeCrossesBackslash(w) {
			// bash emits the backslash of {a..Z} as an unquoted character which
			// the later quote removal (not brace expansion) then eats
			res.Count("skipped_backslash_ranges", 1)
			continue
		}
		f, err := syntax.NewParser(syntax.Variant(syntax.LangBash)).Parse(strings.NewReader("x "+w), "")
		if err != nil || len(f.Stmts) != 1 {
			res.Count("unparseable_words", 1)
			continue
		}
		ce, _ := f.Stmts[0].Cmd.(*syntax.CallExpr)
		if ce == nil || len(ce.Args) != 2 || len(f.Stmts[0].Redirs) != 0 {
			res.Count("not_one_word", 1)
			continue
		}
		word := ce.Args[1]
		literal := true
		for _, part := range word.Parts {
			if _, ok := part.(*syntax.Lit); !ok {
				literal = false
			}
		}
		if !literal {
			res.Count("not_literal_words", 1)
			continue
		}
		res.Evals++
		var before bytes.Buffer
		printer.Print(&before, word)
		cp := *word
		found := syntax.SplitBraces(&cp)
		after := renderBraces(&cp)
		if before.String() != after {
			return fail("splitbraces-changes-printed-form", fmt.Sprintf("word %q prints as %q before and renders as %q after SplitBraces", w, before.String(), after))
		}
		has := false
		for _, part := range cp.Parts { // Walk does not know BraceExp; top-level parts suffice
			if _, ok := part.(*syntax.BraceExp); ok {
				has = true
			}
		}
		if found != has {
			return fail("splitbraces-boolean-wrong", fmt.Sprintf("word %q: SplitBraces returned %v but the result contains a BraceExp: %v", w, found, has))
		}
		if has {
			res.Count("words_with_brace_expansion", 1)
		}
		fields, ferr := expand.Fields(&expand.Config{Env: expand.ListEnviron()}, word)
		items = append(items, item{w, fields, ferr})
		if strings.Contains(w, "{") {
			withBrace++
		}
	}
	if len(items) > 0 {
		dir, err := oracle.ScratchDir(p.env.Build, "c16")
		if err != nil {
			return mon.Result{Verdict: mon.Inconclusive, Reason: "scratch-dir", Detail: err.Error()}
		}
		defer os.RemoveAll(dir)
		var snippets []string
		for _, it := range items {
			snippets = append(snippets, "set -- "+it.w+"\nprintf '%d\\0' $#\nif [ $# -le 20000 ]; then printf '%s\\0' \"$@\"; fi")
		}
		script := oracle.FramedScriptFlat("set -f", snippets) // literal words cannot exit or fail to parse
		r := oracle.RunShell("bash", nil, script, dir, oracle.SealedEnv(p.env.Build, dir), nil, 240*time.Second)
		if r.Err != nil || r.TimedOut {
			return mon.Result{Verdict: mon.Inconclusive, Reason: "shell-run-failed", Detail: fmt.Sprintf("bash: err=%v timeout=%v", r.Err, r.TimedOut)}
		}
		frames := oracle.ParseFrames(r.Stdout, len(items))
		for i, it := range items {
			fr := frames[i]
			if !fr.OK {
				return mon.Result{Verdict: mon.Inconclusive, Reason: "frame-lost", Detail: fmt.Sprintf("bash lost framing at word %q", it.w)}
			}
			parts := bytes.Split(fr.Out, []byte{0})
			if len(parts) < 1 {
				return mon.Result{Verdict: mon.Inconclusive, Reason: "frame-garbled", Detail: it.w}
			}
			n, err := strconv.Atoi(string(parts[0]))
			if err != nil {
				return mon.Result{Verdict: mon.Inconclusive, Reason: "frame-garbled", Detail: fmt.Sprintf("%q: %q", it.w, fr.Out)}
			}
			res.Evals++
			if n > 16384 {
				res.Count("over_limit_words", 1)
				if it.err == nil {
					return fail("no-error-over-limit", fmt.Sprintf("word %q: bash yields %d words (> 16384) but expand.Fields returned %d fields and no error", it.w, n, len(it.fields)))
				}
				continue
			}
			if it.err != nil {
				return fail("error-under-limit", fmt.Sprintf("word %q: bash yields %d words, expand.Fields fails: %v", it.w, n, it.err))
			}
			var bashFields []string
			for k := 1; k <= n && k < len(parts); k++ {
				bashFields = append(bashFields, string(parts[k]))
			}
			a, b := dropEmpty(it.fields), dropEmpty(bashFields)
			if strings.Join(a, "\x00") != strings.Join(b, "\x00") {
				return fail("fields-differ-from-bash", fmt.Sprintf("word %q\n  expand.Fields: %q\n  bash:          %q", it.w, truncList(a), truncList(b)))
			}
		}
	}
	res.Hash = mon.HashOf(c.Kind, c.Chunk, len(words))
	res.Nontriv = withBrace > 0
	res.Count("words_compared_with_bash", len(items))
	if len(words) > 0 {
		res.Sample = map[string]any{"kind": c.Kind, "chunk": c.Chunk, "words": len(words), "first": words[0], "last": words[len(words)-1]}
	}
	return res
}

func truncList(xs []string) []string {
	if len(xs) > 12 {
		return append(append([]string{}, xs[:12]...), fmt.Sprintf("… (%d total)", len(xs)))
	}
	return xs
}

// renderBraces writes a word that may contain BraceExp parts back as text. The
// printer has no case for BraceExp, so the "printed form" after SplitBraces is
// taken to be this rendering: literals as they are, {a,b} and {x..y} rebuilt.
func renderBraces(w *syntax.Word) string {
	var sb strings.Builder
	for _, part := range w.Parts {
		switch x := part.(type) {
		case *syntax.Lit:
			sb.WriteString(x.Value)
		case *syntax.BraceExp:
			sb.WriteString("{")
			sep := ","
			if x.Sequence {
				sep = ".."
			}
			for i, e := range x.Elems {
				if i > 0 {
					sb.WriteString(sep)
				}
				sb.WriteString(renderBraces(e))
			}
			sb.WriteString("}")
		default:
			var b bytes.Buffer
			syntax.NewPrinter().Print(&b, part)
			sb.WriteString(b.String())
		}
	}
	return sb.String()
}
