package props

import (
	"bytes"
	"fmt"
	"os"
	"strconv"
	"strings"
	"time"

	"verif/mon"
	"verif/oracle"
)

// Batched differential engine for the word-level D-oracles (C17 C19 C20-C25 C33):
// many small snippets are run by the real bash and by interp in one script each,
// every snippet followed by a frame that carries its index, its exit status and
// whether it wrote to stderr. A snippet whose framed output differs between the
// two engines is re-run alone, in fresh processes, before it counts.

// Snip is one differential case.
type Snip struct {
	Src  string   `json:"src"`
	Tags []string `json:"tags,omitempty"`
	// Fatal marks snippets that may end the shell (error-if-unset, exit): they
	// always run in their own subshell.
	Fatal bool `json:"fatal,omitempty"`
}

// SnipBatch is the payload of the word-level monitors.
type SnipBatch struct {
	Prelude string `json:"prelude,omitempty"`
	Snips   []Snip `json:"snips"`
	Setup   string `json:"setup,omitempty"` // property-specific (e.g. a directory tree description)
}

type snipFrame struct {
	Out    string
	Status int
	Stderr bool
	OK     bool
}

func (f snipFrame) String() string {
	return fmt.Sprintf("status=%d stderr=%v out=%q", f.Status, f.Stderr, clip(f.Out, 400))
}

func snipScript(prelude string, snips []Snip, allSub bool) []byte {
	var b bytes.Buffer
	b.WriteString("__E=$HOME/.snip_err\n")
	b.WriteString(prelude)
	b.WriteString("\n")
	for i, s := range snips {
		// The snippet's lines stay top-level commands: bash abandons the whole
		// top-level command on an expansion error, so wrapping them in { } would
		// change what runs after an error. stderr goes to a file per snippet.
		b.WriteString("exec 2>\"$__E\"\n")
		if allSub || s.Fatal {
			fmt.Fprintf(&b, "(\n%s\n)\n", s.Src)
		} else {
			fmt.Fprintf(&b, "%s\n", s.Src)
		}
		fmt.Fprintf(&b, "__st=$?; __e=0; [ -s \"$__E\" ] && __e=1; printf '\\001%%s:%%s:%%s\\002\\n' %d \"$__st\" \"$__e\"\n", i)
	}
	return b.Bytes()
}

func parseSnipFrames(out []byte, n int) []snipFrame {
	frames := make([]snipFrame, n)
	rest := out
	for i := 0; i < n; i++ {
		marker := []byte("\x01" + strconv.Itoa(i) + ":")
		j := bytes.Index(rest, marker)
		if j < 0 {
			break
		}
		body := rest[:j]
		rest = rest[j+len(marker):]
		k := bytes.Index(rest, []byte("\x02\n"))
		if k < 0 {
			break
		}
		parts := strings.Split(string(rest[:k]), ":")
		if len(parts) != 2 {
			break
		}
		st, err := strconv.Atoi(parts[0])
		if err != nil {
			break
		}
		rest = rest[k+2:]
		frames[i] = snipFrame{Out: string(body), Status: st, Stderr: parts[1] == "1", OK: true}
	}
	return frames
}

// runSnips runs the batch in bash and in interp. setupDir, if non-nil, populates
// each scratch directory first.
func (b *base) runSnips(prelude string, snips []Snip, allSub bool, setupDir func(dir string) error) (bashF, interpF []snipFrame, err error) {
	script := snipScript(prelude, snips, allSub)
	mk := func() (string, error) {
		dir, err := oracle.ScratchDir(b.env.Build, "snip")
		if err != nil {
			return "", err
		}
		if setupDir != nil {
			if err := setupDir(dir); err != nil {
				os.RemoveAll(dir)
				return "", err
			}
		}
		return dir, nil
	}
	d1, err := mk()
	if err != nil {
		return nil, nil, err
	}
	defer os.RemoveAll(d1)
	br := oracle.RunShell("bash", nil, script, d1, oracle.SealedEnv(b.env.Build, d1), []byte{}, 120*time.Second)
	if br.Err != nil {
		return nil, nil, br.Err
	}
	norm := func(s []byte, dir string) []byte { return bytes.ReplaceAll(s, []byte(dir), []byte("<SCRATCH>")) }
	bashF = parseSnipFrames(norm(br.Stdout, d1), len(snips))
	d2, err := mk()
	if err != nil {
		return nil, nil, err
	}
	defer os.RemoveAll(d2)
	ir := oracle.RunInterp(script, oracle.InterpOpts{Dir: d2, Env: oracle.SealedEnv(b.env.Build, d2), Stdin: []byte{}, Timeout: 120 * time.Second})
	if ir.ParseErr != nil {
		return bashF, nil, fmt.Errorf("interp cannot parse the batch: %v", ir.ParseErr)
	}
	if ir.Panic != "" {
		return bashF, nil, fmt.Errorf("interp panicked: %s", clip(ir.Panic, 600))
	}
	interpF = parseSnipFrames(norm(ir.Stdout, d2), len(snips))
	return bashF, interpF, nil
}

// SnipJudge lets a property normalise or excuse a difference. It returns
// (verdict, reason): mon.Held (treat as equal), mon.OutOfDomain, mon.Known (with
// the finding id as reason) or "" to let the difference stand.
type SnipJudge func(s Snip, bash, interp snipFrame) (string, string)

// diffSnips is the common Run body. domainStderr: a snippet on which bash wrote
// to stderr is out of domain unless it carries the tag "diag-ok".
func (b *base) diffSnips(batch *SnipBatch, judge SnipJudge, setupDir func(dir string) error) mon.Result {
	var res mon.Result
	if len(batch.Snips) == 0 {
		return mon.Result{Verdict: mon.OutOfDomain, Reason: "empty-batch"}
	}
	// every snippet must parse on its own, or it would take the batch with it
	var snips []Snip
	for _, s := range batch.Snips {
		if _, err := oracle.ParseBash([]byte(s.Src)); err != nil {
			res.Count("snippet_does_not_parse", 1)
			continue
		}
		snips = append(snips, s)
	}
	if len(snips) == 0 {
		return mon.Result{Verdict: mon.OutOfDomain, Reason: "no-parseable-snippet", Counters: res.Counters}
	}
	bf, inf, err := b.runSnips(batch.Prelude, snips, false, setupDir)
	lost := func(fs []snipFrame) bool {
		return len(fs) == 0 || !fs[len(fs)-1].OK
	}
	if err == nil && (lost(bf) || lost(inf)) {
		// an engine lost framing (a snippet ended the shell): isolate every snippet
		res.Count("batches_rerun_in_subshells", 1)
		bf, inf, err = b.runSnips(batch.Prelude, snips, true, setupDir)
	}
	if err != nil {
		return mon.Result{Verdict: mon.Inconclusive, Reason: "batch-run-failed", Detail: err.Error(), Counters: res.Counters}
	}
	res.Evals = 0
	for i, s := range snips {
		for _, t := range s.Tags {
			res.Count("tag:"+t, 1)
		}
		if !bf[i].OK {
			res.Count("bash_frame_lost", 1)
			continue
		}
		if !inf[i].OK {
			// interp lost framing where bash did not: judge the snippet alone
			inf[i] = snipFrame{Out: "<no frame>", Status: -1}
		}
		res.Evals++
		if bf[i].Stderr && !hasTag(s.Tags, "diag-ok") {
			res.Count("ood_bash_diagnostic", 1)
			continue
		}
		if bf[i].Out == inf[i].Out && bf[i].Status == inf[i].Status {
			res.Count("snippets_agree", 1)
			continue
		}
		// confirm alone, in fresh processes and a subshell each
		b1, i1, err := b.runSnips(batch.Prelude, []Snip{s}, false, setupDir) // alone in its process; no subshell, which would change what an error abandons
		if err != nil || !b1[0].OK {
			res.Count("confirm_failed", 1)
			continue
		}
		if !i1[0].OK {
			i1[0] = snipFrame{Out: "<no frame>", Status: -1}
		}
		if b1[0].Stderr && !hasTag(s.Tags, "diag-ok") {
			res.Count("ood_bash_diagnostic", 1)
			continue
		}
		if b1[0].Out == i1[0].Out && b1[0].Status == i1[0].Status {
			res.Count("difference_not_reproduced_alone", 1)
			continue
		}
		if judge != nil {
			switch v, why := judge(s, b1[0], i1[0]); v {
			case mon.Held:
				res.Count("normalised:"+why, 1)
				continue
			case mon.OutOfDomain:
				res.Count("ood:"+why, 1)
				continue
			case mon.Known:
				res.Count("known:"+why, 1)
				continue
			}
		}
		res.Count("differing_snippets", 1)
		if res.Verdict != mon.Violated {
			res.Fail("differs-from-bash", fmt.Sprintf("prelude: %q\nsnippet:\n%s\n  bash:   %s\n  interp: %s", batch.Prelude, s.Src, b1[0], i1[0]))
			res.Payload = &SnipBatch{Prelude: batch.Prelude, Snips: []Snip{s}, Setup: batch.Setup}
		} else if res.Counters["differing_snippets"] <= 4 {
			res.Detail += fmt.Sprintf("\n--- also in this batch:\n%s\n  bash:   %s\n  interp: %s", s.Src, b1[0], i1[0])
		}
	}
	return res
}

func hasTag(tags []string, t string) bool {
	for _, x := range tags {
		if x == t {
			return true
		}
	}
	return false
}

// shq single-quotes s for the shell.
func shq(s string) string { return "'" + strings.ReplaceAll(s, "'", `'\''`) + "'" }
