package props

import (
	"context"
	"fmt"
	"io"
	"math/rand/v2"
	"os"
	"path/filepath"
	"runtime"
	"sort"
	"strings"
	"sync"
	"sync/atomic"
	"time"

	"mvdan.cc/sh/v3/interp"
	"verif/mon"
	"verif/oracle"
)

// C32: concurrent shell features are race-free.
type c32 struct {
	base
	raceLog string
	logOff  int64
}

func init() { mon.Register(&c32{}) }

type ConcCase struct {
	Src       string   `json:"src"`
	Expect    []string `json:"expect"` // lines stdout must contain (any order); empty: no claim
	API       bool     `json:"api_subshell,omitempty"`
	Schedules int      `json:"schedules"`
	Procs     int      `json:"gomaxprocs"`
	Tags      []string `json:"tags,omitempty"`
}

func (*c32) ID() string { return "C32" }
func (*c32) Rule() string {
	return "concurrent programs: 2-6 background jobs that each mutate scalars, arrays (a+=x, a[i]=, a+=(..), unset 'a[i]'), functions, aliases, options, the working directory and positional parameters and exit with a known status while the parent does the same and then waits for each job by id; pipelines of 2-5 builtin stages with and without pipefail; command substitutions that start background jobs; <( ) and >( ) fan-out; here-document and here-string writers; and Runner.Subshell() copies run in other goroutines concurrently with the parent's Run. Every program runs under several yield schedules: the verif-tag hook at each goroutine boundary does nothing, yields 1-20 times or sleeps 10-500 us, decided by a per-run PRNG; GOMAXPROCS alternates between 2, 4 and 16. The worker is built with -race. Oracle: the race detector's log gains no report (any report with an mvdan.cc/sh frame is a violation, attributed to the case that was running); 'wait <id>' printed the status assigned to that job; every job's output line is present. Non-trivial: the case ran at least one schedule in which >= 3 hook points were hit; distinct: hash of the case."
}
func (*c32) NumCases(tier string) int      { return tierN(tier, 150, 1500) }
func (*c32) MinNontrivial(tier string) int { return tierN(tier, 100, 1000) }
func (*c32) New() any                      { return &ConcCase{} }
func (*c32) Race(tier string) bool         { return true }
func (*c32) CaseTimeout() time.Duration    { return 300 * time.Second }
func (*c32) Workers(tier string) int       { return 6 } // each worker itself runs with up to 16 procs
func (*c32) Assumptions() []string {
	return []string{"the Go race detector only reports races on executions that happened; the yields widen the set of interleavings, they do not exhaust it", "a report without any mvdan.cc/sh frame would be a harness defect"}
}

func (p *c32) ChildEnv(env *mon.Env) []string {
	dir := filepath.Join(env.Build, "race")
	os.MkdirAll(dir, 0o755)
	return []string{"GORACE=halt_on_error=0 history_size=3 log_path=" + filepath.Join(dir, "c32")}
}

// yield schedule state shared with the hook
var (
	yieldSeed  atomic.Uint64
	yieldCtr   atomic.Uint64
	yieldMu    sync.Mutex
	yieldSeen  = map[string]int{}
	yieldKinds [3]atomic.Uint64
)

func yieldHook(point string) {
	n := yieldCtr.Add(1)
	x := yieldSeed.Load() + n*0x9E3779B97F4A7C15
	x ^= x >> 30
	x *= 0xBF58476D1CE4E5B9
	x ^= x >> 27
	yieldMu.Lock()
	yieldSeen[point]++
	yieldMu.Unlock()
	switch x % 3 {
	case 0:
		yieldKinds[0].Add(1)
	case 1:
		yieldKinds[1].Add(1)
		for k := 1 + (x>>8)%20; k > 0; k-- {
			runtime.Gosched()
		}
	default:
		yieldKinds[2].Add(1)
		time.Sleep(time.Duration(10+(x>>8)%490) * time.Microsecond)
	}
}

func (p *c32) Init(env *mon.Env) error {
	if err := p.base.Init(env); err != nil {
		return err
	}
	setVerifYield(yieldHook)
	if env.Worker {
		p.raceLog = filepath.Join(env.Build, "race", "c32") + "." + fmt.Sprint(os.Getpid())
	}
	return nil
}

var concMutations = []string{"v=changed", "v+=x", "n=$((n+1))", "a+=q", "a+=(w)", "a[1]=z", "a[5]=far", "unset 'a[0]'", "a[0]+=s", "declare -A m; m[k]=v", "f() { echo redefined; }", "unset -f f", "alias al='echo changed'", "set -f", "set +f", "shopt -s nullglob", "cd sub", "cd ..", "set -- p q r", "shift", "export v", "readonly rr=1", "local_test() { local l=1; a+=(l); }; local_test", "read x <<< hello", ": ${u:=assigned}", "IFS=:", "mapfile -t lines <<< $'a\\nb'", "true | true", "x=$(echo sub)", "eval 'v=evaled'", "echo out >/dev/null", "for i in 1 2; do a+=($i); done", "echo \"$v ${a[*]} $n\" >/dev/null", "g=$v$n", "[[ $v == one ]]", "lv=2"}

func (p *c32) Gen(i int, r *rand.Rand) any {
	c := &ConcCase{Procs: []int{2, 4, 16}[r.IntN(3)]}
	c.Schedules = 6
	if p.env.Tier == "thorough" {
		c.Schedules = 60
	}
	mut := func(n int) string {
		var ms []string
		for k := 0; k < n; k++ {
			ms = append(ms, concMutations[r.IntN(len(concMutations))])
		}
		return strings.Join(ms, "; ")
	}
	prelude := "v=one; n=1; a=(x y z); f() { echo f; }; shopt -s expand_aliases; alias al='echo one'; mkdir -p sub; set -- 1 2 3\n"
	var sb strings.Builder
	sb.WriteString(prelude)
	switch k := r.IntN(10); {
	case k < 4:
		// background jobs with known statuses
		nj := 2 + r.IntN(5)
		var ids []string
		for j := 1; j <= nj; j++ {
			st := r.IntN(200)
			fmt.Fprintf(&sb, "{ %s; echo job%d >/dev/null; exit %d; } 2>/dev/null &\np%d=$!\n", mut(1+r.IntN(3)), j, st, j)
			ids = append(ids, fmt.Sprintf("p%d", j))
			c.Expect = append(c.Expect, fmt.Sprintf("j%d=%d", j, st))
			if r.IntN(2) == 0 {
				sb.WriteString(mut(1+r.IntN(2)) + " 2>/dev/null\n")
			}
		}
		order := r.Perm(nj)
		for _, j := range order {
			fmt.Fprintf(&sb, "wait $p%d; echo \"j%d=$?\"\n", j+1, j+1)
		}
		sb.WriteString("echo \"parent:$v:${#a[@]}\" >/dev/null\n")
		c.Tags = append(c.Tags, "background-jobs")
	case k < 6:
		ns := 2 + r.IntN(4)
		stages := []string{"echo a b c", "while read -r l; do echo \"$l\"; v=$l; a+=(\"$l\"); done", "{ " + mut(2) + "; cat; } 2>/dev/null", "tr a-z A-Z", "cat", "{ read -r x; echo \"$x\"; n=$((n+1)); }"}
		var st []string
		st = append(st, "printf '%s\\n' one two three")
		for j := 1; j < ns; j++ {
			st = append(st, stages[1+r.IntN(len(stages)-1)])
		}
		if r.IntN(2) == 0 {
			sb.WriteString("set -o pipefail\n")
		}
		sb.WriteString(strings.Join(st, " | ") + " >/dev/null\n" + mut(2) + " 2>/dev/null\necho \"pipe=$?\" >/dev/null\n")
		c.Tags = append(c.Tags, "pipeline")
	case k == 6:
		fmt.Fprintf(&sb, "x=$( { %s; echo inner; } 2>/dev/null & %s 2>/dev/null; wait; echo done )\necho \"$x\" >/dev/null\n%s 2>/dev/null\n", mut(2), mut(2), mut(1))
		c.Tags = append(c.Tags, "cmdsubst-with-background")
	case k == 7:
		fmt.Fprintf(&sb, "cat <( %s; echo in1 ) <( %s; echo in2 ) >/dev/null 2>&1\n%s 2>/dev/null\necho x > >( %s; cat >/dev/null ) 2>/dev/null\nwait\n", mut(2), mut(2), mut(2), mut(1))
		c.Tags = append(c.Tags, "process-substitution")
	case k == 8:
		fmt.Fprintf(&sb, "cat <<EOF >/dev/null &\n$v ${a[@]} $(echo $n)\nEOF\n%s 2>/dev/null\ncat <<< \"$v ${a[*]}\" >/dev/null &\n%s 2>/dev/null\nwait\n", mut(2), mut(2))
		c.Tags = append(c.Tags, "heredoc-writers")
	default:
		c.API = true
		sb.WriteString(mut(3) + " 2>/dev/null\n")
		c.Tags = append(c.Tags, "api-subshell")
	}
	c.Src = sb.String()
	if !c.API && r.IntN(5) < 2 {
		// the same concurrency started from inside a function body (a scope
		// layer sits between the job's copy and the globals)
		body := strings.TrimPrefix(c.Src, prelude)
		c.Src = prelude + "main() {\nlocal lv=1\n" + body + "}\nmain\n"
		c.Tags = append(c.Tags, "inside-function")
	}
	return c
}

func (p *c32) raceReports() string {
	if p.raceLog == "" {
		return ""
	}
	f, err := os.Open(p.raceLog)
	if err != nil {
		return ""
	}
	defer f.Close()
	st, err := f.Stat()
	if err != nil || st.Size() <= p.logOff {
		return ""
	}
	f.Seek(p.logOff, io.SeekStart)
	b, _ := io.ReadAll(f)
	p.logOff = st.Size()
	return string(b)
}

func (p *c32) Run(payload any) mon.Result {
	c := payload.(*ConcCase)
	var res mon.Result
	f, err := oracle.ParseBash([]byte(c.Src))
	if err != nil {
		return mon.Result{Verdict: mon.OutOfDomain, Reason: "does-not-parse", Detail: err.Error()}
	}
	p.raceReports() // discard anything left over
	old := runtime.GOMAXPROCS(c.Procs)
	defer runtime.GOMAXPROCS(old)
	maxPoints := 0
	for sidx := 0; sidx < c.Schedules; sidx++ {
		dir, err := oracle.ScratchDir(p.env.Build, "c32")
		if err != nil {
			return mon.Result{Verdict: mon.Inconclusive, Reason: "scratch-dir"}
		}
		yieldSeed.Store(uint64(sidx)*7919 + uint64(len(c.Src)))
		before := yieldCtr.Load()
		out := &lockedBuf{}
		r, err := newStateRunner(p.env.Build, dir, out, []string{"1", "2", "3"})
		if err != nil {
			os.RemoveAll(dir)
			return mon.Result{Verdict: mon.Inconclusive, Reason: "new-failed"}
		}
		ctx, cancel := context.WithTimeout(context.Background(), 20*time.Second)
		if c.API {
			// parent state first, then copies used concurrently with the parent
			pf, _ := oracle.ParseBash([]byte(strings.SplitN(c.Src, "\n", 2)[0] + "\n"))
			r.Run(ctx, pf)
			var wg sync.WaitGroup
			for k := 0; k < 3; k++ {
				sub := r.Subshell()
				wg.Add(1)
				go func() {
					defer wg.Done()
					yieldHook("api:subshell-goroutine")
					sub.Run(ctx, f)
				}()
			}
			yieldHook("api:parent")
			r.Run(ctx, f)
			wg.Wait()
		} else {
			done := make(chan struct{})
			go func() { defer close(done); r.Run(ctx, f) }()
			select {
			case <-done:
			case <-time.After(40 * time.Second):
				cancel()
				os.RemoveAll(dir)
				return mon.Result{Verdict: mon.Inconclusive, Reason: "run-did-not-return", Detail: c.Src}
			}
		}
		cancel()
		os.RemoveAll(dir)
		res.Evals++
		if pts := int(yieldCtr.Load() - before); pts > maxPoints {
			maxPoints = pts
		}
		if rep := p.raceReports(); strings.Contains(rep, "WARNING: DATA RACE") {
			res.Fail("data-race", fmt.Sprintf("schedule %d, GOMAXPROCS %d, program:\n%s\n%s", sidx, c.Procs, c.Src, clip(raceSummary(rep), 3500)))
			return res
		}
		got := out.String()
		for _, want := range c.Expect {
			if !strings.Contains("\n"+got, "\n"+want+"\n") {
				res.Fail("wait-status-wrong", fmt.Sprintf("schedule %d, program:\n%s\nexpected the line %q; stdout:\n%s", sidx, c.Src, want, got))
				return res
			}
		}
	}
	yieldMu.Lock()
	for pt, n := range yieldSeen {
		res.Count("hook:"+pt, n)
		delete(yieldSeen, pt)
	}
	yieldMu.Unlock()
	res.Count("yield:none", int(yieldKinds[0].Swap(0)))
	res.Count("yield:gosched", int(yieldKinds[1].Swap(0)))
	res.Count("yield:sleep", int(yieldKinds[2].Swap(0)))
	for _, t := range c.Tags {
		res.Count("kind:"+t, 1)
	}
	res.Count(fmt.Sprintf("gomaxprocs:%d", c.Procs), 1)
	res.Hash = mon.HashOf(c)
	res.Nontriv = maxPoints >= 3
	res.Sample = map[string]any{"kind": c.Tags, "schedules": c.Schedules, "gomaxprocs": c.Procs, "hook_points_in_one_schedule": maxPoints, "src": clip(c.Src, 240)}
	return res
}

// raceSummary keeps the report headers and the mvdan.cc/sh frames.
func raceSummary(rep string) string {
	var keep []string
	lines := strings.Split(rep, "\n")
	for i, l := range lines {
		if strings.HasPrefix(l, "WARNING: DATA RACE") || strings.HasPrefix(l, "Read at") || strings.HasPrefix(l, "Write at") || strings.HasPrefix(l, "Previous ") || strings.HasPrefix(l, "Goroutine ") {
			keep = append(keep, l)
		}
		if strings.Contains(l, "mvdan.cc/sh") && i+1 < len(lines) {
			keep = append(keep, "  "+strings.TrimSpace(l), "      "+strings.TrimSpace(lines[i+1]))
		}
	}
	sort.SliceStable(keep, func(i, j int) bool { return false })
	return strings.Join(keep, "\n")
}

var _ = interp.New
