package props

import (
	"bytes"
	"fmt"
	"math/rand/v2"
	"strings"
	"time"

	"mvdan.cc/sh/v3/syntax"
	"verif/gen"
	"verif/mon"
	"verif/oracle"
)

// C04: Simplify preserves behaviour.
type c04 struct {
	base
	repoProgs []gen.InterpCase
}

func init() { mon.Register(&c04{}) }

func (*c04) ID() string { return "C04" }
func (*c04) Rule() string {
	return "runnable bash programs biased towards what Simplify rewrites ($(( $a + (1) )), (( ($x) )), ${a[(1)]}, ${s:(0):(2)}, ( ( .. ) ), $( (..) ), [[ \"$a\" == b ]], [[ ! -n $x ]], [[ ! a == b ]], [[ (a) ]], \"lit\\$x\", \"a\\\"b\", $\"..\"), plus the repo's safe runTests programs and syntactic corpus/grammar inputs for the tree-only clauses. Oracle: (1) the simplified tree prints, re-parses and the re-parse equals it (C01's normaliser); (2) Simplify's boolean equals 'the position-free dump of the tree changed'; (3) a second Simplify returns false and changes nothing; (4) interp(original)==interp(simplified) on stdout and status; (5) bash(print original)==bash(print simplified), the generator only putting plain integers into variables used in arithmetic. Non-trivial: Simplify changed the tree; distinct: hash of the source."
}
func (*c04) NumCases(tier string) int      { return tierN(tier, 1200, 25000) }
func (*c04) MinNontrivial(tier string) int { return tierN(tier, 150, 3000) }
func (*c04) New() any                      { return &ProgCase{} }
func (*c04) CaseTimeout() time.Duration    { return 200 * time.Second }
func (*c04) Assumptions() []string {
	return []string{"bash 5.2.15 stands in for bash", "stderr is not compared", "syntactic (non-runnable) inputs are only judged on clauses 1-3"}
}

func (p *c04) Init(env *mon.Env) error {
	if err := p.base.Init(env); err != nil {
		return err
	}
	p.repoProgs = p.interpCorpus()
	return nil
}

func (p *c04) Gen(i int, r *rand.Rand) any {
	switch k := r.IntN(10); {
	case k < 4:
		src, tags := gen.RunProgram(r, gen.RunOpts{Simplifiable: true})
		return &ProgCase{Src: src, Tags: tags, Source: "generated"}
	case k < 5 && len(p.repoProgs) > 0:
		ic := p.repoProgs[r.IntN(len(p.repoProgs))]
		return &ProgCase{Src: ic.In, Source: "repo"}
	default:
		// tree-only: any parseable bash input
		for try := 0; try < 20; try++ {
			c := p.synInputX(r, synMustParse, false, true, false)
			if c == nil || c.lang() != syntax.LangBash {
				continue
			}
			return &ProgCase{Src: string(c.Src), Source: "syntactic:" + c.Source}
		}
		return nil
	}
}

var (
	dumpNoPos = oracle.CanonOpts{Comments: true}
	dumpCosm  = oracle.CanonOpts{Cosmetic: true}
)

func (p *c04) Run(payload any) mon.Result {
	c := payload.(*ProgCase)
	var res mon.Result
	a, err := oracle.ParseBash([]byte(c.Src))
	if err != nil {
		return mon.Result{Verdict: mon.OutOfDomain, Reason: "does-not-parse"}
	}
	b, _ := oracle.ParseBash([]byte(c.Src))
	before := oracle.Canon(b, dumpNoPos)
	changed := syntax.Simplify(b)
	after := oracle.Canon(b, dumpNoPos)
	res.Evals = 1
	res.Count("source:"+c.Source, 1)
	if changed {
		res.Count("simplify_changed", 1)
	}
	if changed != (before != after) {
		res.Fail("boolean-wrong", fmt.Sprintf("src=%q\nSimplify returned %v but the tree %s\n%s", c.Src, changed, map[bool]string{true: "changed", false: "did not change"}[before != after], oracle.FirstDiff(before, after)))
		return res
	}
	// idempotence
	if again := syntax.Simplify(b); again || oracle.Canon(b, dumpNoPos) != after {
		res.Fail("not-idempotent", fmt.Sprintf("src=%q\na second Simplify returned %v\n%s", c.Src, again, oracle.FirstDiff(after, oracle.Canon(b, dumpNoPos))))
		return res
	}
	// prints and re-parses to the same tree
	var pa, pb bytes.Buffer
	if err := syntax.NewPrinter().Print(&pa, a); err != nil {
		return mon.Result{Verdict: mon.OutOfDomain, Reason: "original-does-not-print"}
	}
	if err := syntax.NewPrinter().Print(&pb, b); err != nil {
		res.Fail("simplified-does-not-print", fmt.Sprintf("src=%q: %v", c.Src, err))
		return res
	}
	rb, err := oracle.ParseBash(pb.Bytes())
	if err != nil {
		if _, err0 := oracle.ParseBash(pa.Bytes()); err0 != nil {
			return mon.Result{Verdict: mon.OutOfDomain, Reason: "original-print-does-not-reparse(C01)"}
		}
		res.Fail("simplified-does-not-reparse", fmt.Sprintf("src=%q\nprinted simplified tree:\n%s\nerror: %v", c.Src, pb.String(), err))
		return res
	}
	if x, y := oracle.Canon(b, dumpCosm), oracle.Canon(rb, dumpCosm); x != y {
		// is the same true of the unsimplified tree? then it is C01's
		ra, err0 := oracle.ParseBash(pa.Bytes())
		if err0 != nil || oracle.Canon(a, dumpCosm) != oracle.Canon(ra, dumpCosm) {
			return mon.Result{Verdict: mon.OutOfDomain, Reason: "original-print-roundtrip-differs(C01)"}
		}
		res.Fail("simplified-reparse-differs", fmt.Sprintf("src=%q\nprinted simplified tree:\n%s\n%s", c.Src, pb.String(), oracle.FirstDiff(x, y)))
		return res
	}
	res.Hash = mon.HashOf(c.Src)
	res.Nontriv = changed
	if strings.HasPrefix(c.Source, "syntactic") || !changed {
		// behaviour only matters where Simplify did something and the program is runnable
		res.Sample = map[string]any{"source": c.Source, "changed": changed, "src": clip(c.Src, 160)}
		return res
	}
	if endsInLoneBackslash([]byte(strings.TrimRight(c.Src, "\n"))) {
		return res
	}
	sa, sb := pa.String(), pb.String()
	ia, err := p.inInterp(sa)
	if err != nil {
		return mon.Result{Verdict: mon.Inconclusive, Reason: "interp-run-failed", Detail: err.Error()}
	}
	ib, err := p.inInterp(sb)
	if err != nil {
		return mon.Result{Verdict: mon.Inconclusive, Reason: "interp-run-failed", Detail: err.Error()}
	}
	ba, err := p.inShell("bash", sa)
	if err != nil {
		return mon.Result{Verdict: mon.Inconclusive, Reason: "bash-run-failed", Detail: err.Error()}
	}
	bb, err := p.inShell("bash", sb)
	if err != nil {
		return mon.Result{Verdict: mon.Inconclusive, Reason: "bash-run-failed", Detail: err.Error()}
	}
	if ia.TimedOut || ib.TimedOut || ba.TimedOut || bb.TimedOut {
		return mon.Result{Verdict: mon.Inconclusive, Reason: "timeout", Detail: c.Src}
	}
	res.Evals += 4
	res.Count("behaviour_compared", 1)
	if !ia.same(ib) {
		res.Fail("interp-behaviour-changed", fmt.Sprintf("original:\n%s\nsimplified:\n%s\n  interp(original):   %s\n  interp(simplified): %s", sa, sb, ia, ib))
		return res
	}
	if !ba.same(bb) {
		res.Fail("bash-behaviour-changed", fmt.Sprintf("original:\n%s\nsimplified:\n%s\n  bash(original):   %s\n  bash(simplified): %s", sa, sb, ba, bb))
		return res
	}
	res.Sample = map[string]any{"source": c.Source, "changed": changed, "src": clip(c.Src, 160), "simplified": clip(sb, 160)}
	return res
}

func (p *c04) Shrink(payload any, still func(any) bool) any { return shrinkProg(payload, still) }
