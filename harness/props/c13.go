package props

import (
	"bytes"
	"fmt"
	"math/rand/v2"
	"os"
	"strconv"
	"strings"
	"time"
	"unicode"
	"unicode/utf8"

	"mvdan.cc/sh/v3/expand"
	"mvdan.cc/sh/v3/syntax"
	"verif/mon"
	"verif/oracle"
)

// C13: Quote produces a word that expands back to the string.
type c13 struct{ base }

func init() { mon.Register(&c13{}) }

type QuoteCase struct {
	Kind    string   `json:"kind"` // exhaustive | random
	Chunk   int      `json:"chunk"`
	Strings [][]byte `json:"strings,omitempty"` // random cases carry their strings
	Shells  bool     `json:"shells"`
}

func (*c13) ID() string { return "C13" }
func (*c13) Rule() string {
	return "strings without NUL: exhaustively all 255 one-byte and 65025 two-byte strings (128 chunks of 510), then random strings up to length 24 biased to shell metacharacters, keywords, ~ = # { [, control bytes, multi-byte, surrogate-range and invalid UTF-8, U+FFFE/U+FFFF and astral code points; for each of the five variants Quote must fail only where the property allows and otherwise yield text that parses (alone and as an argument) to exactly one word of Lit/SglQuoted/DblQuoted parts which expand.Literal and expand.Fields turn back into the string; the quoted words are also handed to the real shells (bash for Bash and Bats, dash for POSIX) in one batched script per chunk and must print the original bytes. Non-trivial: the string needs quoting (Quote's result differs from it); distinct: hash of the string."
}
func (*c13) NumCases(tier string) int      { return tierN(tier, 128+48, 128+1400) }
func (*c13) MinNontrivial(tier string) int { return tierN(tier, 150, 1200) }
func (*c13) New() any                      { return &QuoteCase{} }
func (*c13) Assumptions() []string {
	return []string{"mksh and zsh are not installed: those variants are checked against the library's own parser and expander only", "bash 5.2.15 and dash stand in for 'the real shell'", "quick tier: the real-shell leg runs on every 8th exhaustive chunk and on all random chunks; thorough: on all"}
}
func (*c13) CaseTimeout() time.Duration { return 300 * time.Second }

var quoteDict = []string{"'", "\"", "\\", "$", "`", " ", "\t", "\n", "*", "?", "[", "]", "{", "}", "~", "=", "#", "!", "&", "|", ";", "<", ">", "(", ")", "%", "^", "a", "if", "then", "fi", "for", "x=y", "é", "日本", "\xff", "\xc3", "\xed\xa0\x80", "￾", "￿", "\U00010000", "\U0010FFFF", "\x7f", "\x01", "\x1b", "\r", "-n", "--", "$'", "${", "$(",
	// boundaries of the UTF-8 encoding and of what decoders treat specially
	"\u0080", "\u07ff", "\u0800", "\ud7ff", "\ue000", "\ufffc", "\ufffd", "\U0001FFFF", "\U000E0001", "\u00a0", "\u200b", "\u2028", "\ufeff"}

func (p *c13) Gen(i int, r *rand.Rand) any {
	if i < 128 {
		return &QuoteCase{Kind: "exhaustive", Chunk: i, Shells: p.env.Tier == "thorough" || i%8 == 0}
	}
	c := &QuoteCase{Kind: "random", Chunk: i, Shells: true}
	for k := 0; k < 256; k++ {
		var sb strings.Builder
		for l := 1 + r.IntN(8); l > 0; l-- {
			if k := r.IntN(8); k < 2 {
				sb.WriteByte(byte(1 + r.IntN(255)))
			} else if k == 2 {
				// any valid code point
				cp := rune(1 + r.IntN(0x10FFFF))
				if cp >= 0xD800 && cp <= 0xDFFF {
					cp = 0xFFFD
				}
				sb.WriteRune(cp)
			} else {
				sb.WriteString(quoteDict[r.IntN(len(quoteDict))])
			}
		}
		s := sb.String()
		if len(s) > 24 {
			s = s[:24]
		}
		c.Strings = append(c.Strings, []byte(s))
	}
	return c
}

func exhaustiveChunk(k int) [][]byte {
	// index space: 0..254 one-byte strings, then 255*255 two-byte strings
	var out [][]byte
	total := 255 + 255*255
	per := (total + 127) / 128
	for idx := k * per; idx < (k+1)*per && idx < total; idx++ {
		if idx < 255 {
			out = append(out, []byte{byte(idx + 1)})
		} else {
			j := idx - 255
			out = append(out, []byte{byte(j/255 + 1), byte(j%255 + 1)})
		}
	}
	return out
}

// quoteMayFail is the property's list of reasons for Quote to fail.
func quoteMayFail(s string, lang syntax.LangVariant) bool {
	if strings.IndexByte(s, 0) >= 0 {
		return true
	}
	switch lang {
	case syntax.LangPOSIX:
		for len(s) > 0 {
			r, size := utf8.DecodeRuneInString(s)
			if r == utf8.RuneError && size == 1 {
				return true
			}
			if !unicode.IsPrint(r) {
				return true
			}
			s = s[size:]
		}
	case syntax.LangMirBSDKorn:
		for _, r := range s {
			if r > 0xFFFD {
				return true
			}
		}
	}
	return false
}

func (p *c13) Run(payload any) mon.Result {
	c := payload.(*QuoteCase)
	var res mon.Result
	strs := c.Strings
	if c.Kind == "exhaustive" {
		strs = exhaustiveChunk(c.Chunk)
	}
	fail := func(reason, msg string) mon.Result {
		res.Fail(reason, msg)
		return res
	}
	type shellItem struct {
		s      string
		quoted string
	}
	var forBash, forDash []shellItem
	needQuoting := 0
	for _, sb := range strs {
		s := string(sb)
		for _, lang := range Variants {
			res.Evals++
			q, err := syntax.Quote(s, lang)
			if err != nil {
				if !quoteMayFail(s, lang) {
					return fail("quote-fails-on-representable-string", fmt.Sprintf("Quote(%q, %s) = error %v", s, lang, err))
				}
				res.Count("quote_errors:"+lang.String(), 1)
				continue
			}
			if s == "" || strings.IndexByte(s, 0) >= 0 {
				continue
			}
			for _, prefix := range []string{"", "x "} {
				f, perr := syntax.NewParser(syntax.Variant(lang)).Parse(strings.NewReader(prefix+q), "")
				if perr != nil {
					return fail("quoted-does-not-parse", fmt.Sprintf("Quote(%q, %s) = %q: %v", s, lang, q, perr))
				}
				wantArgs := 1
				if prefix != "" {
					wantArgs = 2
				}
				if len(f.Stmts) != 1 {
					return fail("quoted-not-one-word", fmt.Sprintf("Quote(%q, %s) = %q parses as %d statements", s, lang, q, len(f.Stmts)))
				}
				ce, _ := f.Stmts[0].Cmd.(*syntax.CallExpr)
				if prefix == "" && ce == nil {
					// alone, an assignment-looking or keyword-looking result may not be a call; only demanded in argument position
					continue
				}
				if ce == nil || len(ce.Args) != wantArgs || len(ce.Assigns) != 0 || len(f.Stmts[0].Redirs) != 0 {
					if prefix == "" {
						continue
					}
					return fail("quoted-not-one-word", fmt.Sprintf("Quote(%q, %s) = %q does not parse as exactly one argument", s, lang, q))
				}
				w := ce.Args[wantArgs-1]
				for _, part := range w.Parts {
					switch part.(type) {
					case *syntax.Lit, *syntax.SglQuoted, *syntax.DblQuoted:
					default:
						return fail("quoted-has-expansion-part", fmt.Sprintf("Quote(%q, %s) = %q contains a %T", s, lang, q, part))
					}
				}
				cfg := &expand.Config{Env: expand.ListEnviron()}
				lit, lerr := expand.Literal(cfg, w)
				if lerr != nil || lit != s {
					return fail("expand-literal-differs", fmt.Sprintf("Quote(%q, %s) = %q: expand.Literal gives %q, %v", s, lang, q, lit, lerr))
				}
				fields, ferr := expand.Fields(cfg, w)
				if ferr != nil || len(fields) != 1 || fields[0] != s {
					return fail("expand-fields-differs", fmt.Sprintf("Quote(%q, %s) = %q: expand.Fields gives %q, %v", s, lang, q, fields, ferr))
				}
			}
			if q != s {
				needQuoting++
			}
			switch lang {
			case syntax.LangBash:
				forBash = append(forBash, shellItem{s, q})
			case syntax.LangPOSIX:
				forDash = append(forDash, shellItem{s, q})
			}
		}
		res.Count("strings", 1)
	}
	if c.Shells {
		dir, err := oracle.ScratchDir(p.env.Build, "c13")
		if err != nil {
			return mon.Result{Verdict: mon.Inconclusive, Reason: "scratch-dir", Detail: err.Error()}
		}
		defer os.RemoveAll(dir)
		for _, leg := range []struct {
			shell string
			items []shellItem
		}{{"bash", forBash}, {"dash", forDash}} {
			if len(leg.items) == 0 {
				continue
			}
			var script bytes.Buffer
			for _, it := range leg.items {
				script.WriteString("printf '%s\\0' ")
				script.WriteString(it.quoted)
				script.WriteString("\n")
			}
			r := oracle.RunShell(leg.shell, nil, script.Bytes(), dir, oracle.SealedEnv(p.env.Build, dir), nil, 120*time.Second)
			if r.Err != nil || r.TimedOut {
				return mon.Result{Verdict: mon.Inconclusive, Reason: "shell-run-failed", Detail: fmt.Sprintf("%s: err=%v timeout=%v", leg.shell, r.Err, r.TimedOut)}
			}
			got := bytes.Split(r.Stdout, []byte{0})
			if len(got) > 0 && len(got[len(got)-1]) == 0 {
				got = got[:len(got)-1]
			}
			if len(got) != len(leg.items) {
				// find the first script line the shell choked on
				return fail("real-shell-output-count", fmt.Sprintf("%s printed %d words for %d quoted strings (status %d, stderr %q)", leg.shell, len(got), len(leg.items), r.Status, truncStr(string(r.Stderr), 300)))
			}
			for i, it := range leg.items {
				if string(got[i]) != it.s {
					return fail("real-shell-differs", fmt.Sprintf("%s: quoted %q for %q expands to %q", leg.shell, it.quoted, it.s, got[i]))
				}
			}
			res.Count("real_shell_words:"+leg.shell, len(leg.items))
			res.Evals += len(leg.items)
		}
	}
	// per-string distinctness is folded into one hash per chunk plus a counter
	res.Hash = mon.HashOf(c.Kind, c.Chunk, len(strs))
	res.Nontriv = needQuoting > 0
	res.Count("strings_needing_quoting", needQuoting)
	res.Sample = map[string]any{"kind": c.Kind, "chunk": c.Chunk, "strings": len(strs), "first": strconv.Quote(string(strs[0])), "shells": c.Shells}
	return res
}

// C13 counts distinct strings rather than distinct chunks.
func (p *c13) Finish(tier string, counters map[string]int) (map[string]any, string) {
	return map[string]any{"distinct_strings_needing_quoting": counters["strings_needing_quoting"], "exhaustive": true, "exhaustive_note": "all non-NUL strings of length 1 and 2 are enumerated in-process; the real-shell leg covers them all only in the thorough tier"}, ""
}
