package props

import (
	"fmt"
	"math/rand/v2"
	"sort"
	"strings"
	"time"

	"mvdan.cc/sh/v3/expand"
	"verif/mon"
	"verif/oracle"
)

// C33: indexed arrays behave like a map from indices to values.
type c33 struct{ base }

func init() { mon.Register(&c33{}) }

func (*c33) ID() string { return "C33" }
func (*c33) Rule() string {
	return "histories of 3..14 array operations (a=(..) with and without [k]= entries, a+=(..), a[i]=v, a[i]+=v, a+=v, unset 'a[i]', unset a, a=(), b=(\"${a[@]}\"), negative indices, sparse jumps to large indices), at top level, inside a function on a local array and inside ( ) with the parent dumped afterwards; after every operation the element count, index list, values, ${a[1]}, ${a[-1]} and the slices ${a[@]:1:2}, ${a[@]: -2} and ${a[@]: -N} for a random N are printed. A reference model (a Go map from index to value with bash's rules for +=, negative indices, re-indexing by a=(..), and [k]= resetting the running index) predicts the whole output; only histories the model knows to be free of errors are generated. Oracle: interp == bash (batched, differences confirmed alone), model == bash (a disagreement there is a harness defect: inconclusive), and the live expand.Variable left in Runner.Vars satisfies: Indexes nil or strictly increasing and non-negative, same length as List, and nil whenever it would equal 0..n-1. Non-trivial: the batch ran; distinct: hash of the batch."
}
func (*c33) NumCases(tier string) int      { return tierN(tier, 60, 1500) }
func (*c33) MinNontrivial(tier string) int { return tierN(tier, 40, 1000) }
func (*c33) New() any                      { return &SnipBatch{} }
func (*c33) CaseTimeout() time.Duration    { return 300 * time.Second }
func (*c33) Assumptions() []string {
	return []string{"bash 5.2.15 is ground truth", "the reference model is 80 lines of Go in this file"}
}

type arrModel struct {
	m   map[int]string
	set bool
}

func (a *arrModel) keys() []int {
	ks := make([]int, 0, len(a.m))
	for k := range a.m {
		ks = append(ks, k)
	}
	sort.Ints(ks)
	return ks
}
func (a *arrModel) max() int {
	ks := a.keys()
	if len(ks) == 0 {
		return -1
	}
	return ks[len(ks)-1]
}

func (a *arrModel) dump(n int) string {
	ks := a.keys()
	var kss, vs []string
	for _, k := range ks {
		kss = append(kss, fmt.Sprint(k))
		vs = append(vs, a.m[k])
	}
	last := ""
	if len(ks) > 0 {
		last = a.m[ks[len(ks)-1]]
	}
	slice := func(from, count int) string {
		var out []string
		for _, k := range ks {
			if k >= from && (count < 0 || len(out) < count) {
				out = append(out, a.m[k])
			}
		}
		return strings.Join(out, " ")
	}
	neg := func(n int) string {
		from := a.max() + 1 - n
		if from < 0 {
			return "" // bash: a negative offset reaching before index 0 gives nothing
		}
		return slice(from, -1)
	}
	return fmt.Sprintf("n=%d k=[%s] v=[%s] 1=[%s] L=[%s] s=[%s] m2=[%s] mN=[%s]", len(ks), strings.Join(kss, " "), strings.Join(vs, " "), a.m[1], last, slice(1, 2), neg(2), neg(n))
}

const arrDumpFmt = `echo "n=${#a[@]} k=[${!a[@]}] v=[${a[@]}] 1=[${a[1]}] L=[%s] s=[${a[@]:1:2}] m2=[${a[@]: -2}] mN=[${a[@]: -%d}]"`

func (p *c33) genHistory(r *rand.Rand, init map[int]string) (src string, want string, tags []string) {
	a := &arrModel{m: map[int]string{}}
	for k, v := range init {
		a.m[k] = v
	}
	var sb, exp strings.Builder
	val := func() string { return []string{"x", "y", "zz", "w1", "q", "r2", "e"}[r.IntN(7)] }
	tagset := map[string]bool{}
	n := 3 + r.IntN(12)
	negN := 1 + r.IntN(9)
	for i := 0; i < n; i++ {
		switch op := r.IntN(16); {
		case op == 0:
			ws := []string{}
			a.m = map[int]string{}
			for k := r.IntN(5); k > 0; k-- {
				w := val()
				a.m[len(ws)] = w
				ws = append(ws, w)
			}
			fmt.Fprintf(&sb, "a=(%s)\n", strings.Join(ws, " "))
			tagset["assign-list"] = true
		case op == 1:
			a.m = map[int]string{}
			idx := 0
			var ws []string
			for k := 1 + r.IntN(4); k > 0; k-- {
				w := val()
				if r.IntN(2) == 0 {
					idx = r.IntN(12)
					ws = append(ws, fmt.Sprintf("[%d]=%s", idx, w))
				} else {
					ws = append(ws, w)
				}
				a.m[idx] = w
				idx++
			}
			fmt.Fprintf(&sb, "a=(%s)\n", strings.Join(ws, " "))
			tagset["assign-keyed-list"] = true
		case op == 2:
			idx := a.max() + 1
			var ws []string
			for k := 1 + r.IntN(3); k > 0; k-- {
				w := val()
				if r.IntN(3) == 0 {
					idx = r.IntN(12)
					ws = append(ws, fmt.Sprintf("[%d]=%s", idx, w))
				} else {
					ws = append(ws, w)
				}
				a.m[idx] = w
				idx++
			}
			fmt.Fprintf(&sb, "a+=(%s)\n", strings.Join(ws, " "))
			tagset["append-list"] = true
		case op < 6:
			k := r.IntN(12)
			w := val()
			a.m[k] = w
			fmt.Fprintf(&sb, "a[%d]=%s\n", k, w)
			tagset["set-element"] = true
		case op == 6:
			k := r.IntN(8)
			w := val()
			a.m[k] += w
			fmt.Fprintf(&sb, "a[%d]+=%s\n", k, w)
			tagset["append-element"] = true
		case op == 7:
			w := val()
			a.m[0] += w
			fmt.Fprintf(&sb, "a+=%s\n", w)
			tagset["append-scalar"] = true
		case op < 10:
			k := r.IntN(12)
			delete(a.m, k)
			fmt.Fprintf(&sb, "unset 'a[%d]'\n", k)
			tagset["unset-element"] = true
		case op == 10:
			a.m = map[int]string{}
			fmt.Fprintf(&sb, "unset a\n")
			tagset["unset-array"] = true
		case op == 11:
			a.m = map[int]string{}
			fmt.Fprintf(&sb, "a=()\n")
		case op == 12:
			// copy through another array: re-indexes densely
			ks := a.keys()
			nm := map[int]string{}
			for j, k := range ks {
				nm[j] = a.m[k]
			}
			a.m = nm
			fmt.Fprintf(&sb, "b=(\"${a[@]}\")\na=(\"${b[@]}\")\n")
			tagset["copy"] = true
		case op == 13 && len(a.m) > 0:
			k := -1 - r.IntN(2)
			t := a.max() + 1 + k
			if t < 0 {
				continue
			}
			w := val()
			a.m[t] = w
			fmt.Fprintf(&sb, "a[%d]=%s\n", k, w)
			tagset["negative-index"] = true
		case op == 14:
			k := []int{100, 1000, 65536, 1 << 31}[r.IntN(4)]
			w := val()
			a.m[k] = w
			fmt.Fprintf(&sb, "a[%d]=%s\n", k, w)
			tagset["sparse-jump"] = true
		case op == 15 && len(a.m) > 0:
			k := -1 - r.IntN(2)
			t := a.max() + 1 + k
			if _, ok := a.m[t]; !ok {
				continue
			}
			delete(a.m, t)
			fmt.Fprintf(&sb, "unset 'a[%d]'\n", k)
			tagset["negative-unset"] = true
		default:
			continue
		}
		last := "${a[-1]}"
		if len(a.m) == 0 {
			last = "" // ${a[-1]} of an empty array is an error in bash
		}
		fmt.Fprintf(&sb, arrDumpFmt+"\n", last, negN)
		exp.WriteString(a.dump(negN) + "\n")
	}
	for t := range tagset {
		tags = append(tags, t)
	}
	sort.Strings(tags)
	return sb.String(), exp.String(), tags
}

func (p *c33) Gen(i int, r *rand.Rand) any {
	b := &SnipBatch{}
	for k := 0; k < 40; k++ {
		variant := r.IntN(5)
		var init map[int]string
		if variant == 1 {
			init = map[int]string{0: "keep", 1: "me"} // the subshell starts from the parent's array
		}
		src, want, tags := p.genHistory(r, init)
		switch variant {
		case 0:
			src = "arrfn() {\nlocal -a a\n" + src + "}\narrfn"
			tags = append(tags, "in-function-local")
		case 1:
			// the history runs in a subshell; the parent's array must be what it was before
			src = "a=(keep me)\n(\n" + src + ")\necho \"parent: ${a[*]} ${!a[*]}\""
			want += "parent: keep me 0 1\n"
			tags = append(tags, "in-subshell")
		}
		b.Snips = append(b.Snips, Snip{Src: "unset a b\n" + src, Tags: append(tags, "want:"+want)})
	}
	return b
}

func (p *c33) Run(payload any) mon.Result {
	b := payload.(*SnipBatch)
	res := p.diffSnips(b, func(s Snip, bash, interp snipFrame) (string, string) {
		// model vs bash: if the model disagrees with bash the generator may have produced an
		// erroring history; that is a harness matter
		if want, ok := tagValue(s.Tags, "want:"); ok && bash.Out != want {
			return mon.OutOfDomain, "model-disagrees-with-bash"
		}
		return "", ""
	}, nil)
	if res.Verdict == mon.Violated {
		return res
	}
	// model leg and live-structure leg, in-process
	for _, s := range b.Snips {
		want, _ := tagValue(s.Tags, "want:")
		dir, err := oracle.ScratchDir(p.env.Build, "c33")
		if err != nil {
			continue
		}
		ir := oracle.RunInterp([]byte(s.Src), oracle.InterpOpts{Dir: dir, Env: oracle.SealedEnv(p.env.Build, dir), Stdin: []byte{}, KeepRunner: true})
		removeAll(dir)
		if ir.ParseErr != nil || ir.Runner == nil {
			continue
		}
		res.Count("model_compared", 1)
		if string(ir.Stdout) != want {
			// only a violation if bash agrees with the model (checked above through the batch); re-check alone
			b1, _, err := p.runSnips("", []Snip{s}, false, nil)
			if err == nil && b1[0].OK && b1[0].Out == want {
				res.Fail("differs-from-model-and-bash", fmt.Sprintf("history:\n%s\n  model and bash:\n%s\n  interp:\n%s", s.Src, want, ir.Stdout))
				res.Payload = &SnipBatch{Snips: []Snip{s}}
				return res
			}
			res.Count("model_disagrees_with_bash", 1)
			continue
		}
		for name, v := range ir.Runner.Vars {
			if v.Kind != expand.Indexed {
				continue
			}
			if msg := indexedInvariant(v); msg != "" {
				res.Fail("live-array-invariant", fmt.Sprintf("history:\n%s\nvariable %s: %s\n  List=%q Indexes=%v", s.Src, name, msg, v.List, v.Indexes))
				res.Payload = &SnipBatch{Snips: []Snip{s}}
				return res
			}
			res.Count("live_arrays_checked", 1)
		}
	}
	res.Hash = mon.HashOf(b)
	res.Nontriv = res.Evals > 0
	if len(b.Snips) > 0 {
		res.Sample = map[string]any{"histories": len(b.Snips), "first": clip(b.Snips[0].Src, 300)}
	}
	return res
}

func indexedInvariant(v expand.Variable) string {
	if v.Indexes == nil {
		return ""
	}
	if len(v.Indexes) != len(v.List) {
		return "Indexes and List differ in length"
	}
	dense := true
	for i, k := range v.Indexes {
		if k < 0 {
			return "negative index"
		}
		if i > 0 && k <= v.Indexes[i-1] {
			return "Indexes not strictly increasing"
		}
		if k != i {
			dense = false
		}
	}
	if dense && len(v.Indexes) > 0 {
		return "Indexes equals 0..n-1 but is not nil"
	}
	return ""
}
