package props

import (
	"bytes"
	"fmt"
	"math/rand/v2"
	"os"
	"strings"
	"sync"
	"time"

	"mvdan.cc/sh/v3/expand"
	"mvdan.cc/sh/v3/interp"
	"mvdan.cc/sh/v3/syntax"
	"verif/gen"
	"verif/mon"
	"verif/oracle"
)

// C29: running a program leaves the tree and Env untouched.
type c29 struct {
	base
	repoProgs []gen.InterpCase
}

func init() { mon.Register(&c29{}) }

func (*c29) ID() string { return "C29" }
func (*c29) Rule() string {
	return "runnable programs rich in what makes the interpreter copy or rewrite nodes (aliases with trailing blanks and chains, declare/export/local/readonly with expanding arguments, brace expansion in arguments, assignments and loops, here-documents incl. <<-, functions defined, called and redefined, traps, eval, += on scalars and arrays, for over \"$@\", process and command substitutions), from the runnable generator, the repo's safe runTests programs and alias/declare templates; each parsed once and run 1x or 3x (with and without Reset in between) on that same tree. Oracle: the reflection dump of the tree with every field, position and comment, and its printed form, are identical before and after; a spy Environ given through interp.Env records zero Set calls and yields the same Each sequence before and after. Non-trivial: the program assigns, exports or unsets at least one variable or defines an alias/function; distinct: hash of (source, runs)."
}
func (*c29) NumCases(tier string) int      { return tierN(tier, 2500, 50000) }
func (*c29) MinNontrivial(tier string) int { return tierN(tier, 1000, 20000) }
func (*c29) New() any                      { return &ProgCase{} }
func (*c29) CaseTimeout() time.Duration    { return 120 * time.Second }
func (*c29) Assumptions() []string {
	return []string{"external commands are limited to the allowlisted tools; file access is confined to a scratch directory", "the tree dump is the reflection normaliser with positions and comments kept"}
}

func (p *c29) Init(env *mon.Env) error {
	if err := p.base.Init(env); err != nil {
		return err
	}
	p.repoProgs = p.interpCorpus()
	return nil
}

var c29Templates = []string{
	"shopt -s expand_aliases\nalias ll='echo -l '\nalias g='echo g'\nll g x\nll ll\nalias e='ll '\ne g\n",
	"shopt -s expand_aliases\nalias foo='bar '\nalias bar='echo bar'\nfoo foo\nunalias foo\nalias a1='echo one; echo'\na1 two\n",
	"x='a=1 b=2'\ndeclare $x\necho \"$a $b\"\nexport \"c=$a$b\" d=$x\necho \"$c $d\"\nf() { local $x l{1,2}=v; echo \"$a $l1 $l2\"; }\nf\nreadonly r{a,b}=1\necho $ra $rb\n",
	"for i in {1..3} x{a,b}y; do echo $i; done\necho pre{A,B}post {a..c}{1..2}\nv={a,b}\necho $v\narr=({x,y}1 z)\necho ${arr[@]}\n",
	"f() { echo one; }\nf\nf() { echo two \"$@\"; }\nf a{1,2}\ntrap 'echo bye {a,b}' EXIT\neval 'f {p,q}; alias zz=\"echo zz\"'\ncat <<-EOF\n\t$(f in) ${v:-d{1,2}}\n\tEOF\n",
	"s=a\ns+=b{1,2}\narr=(1 2)\narr+=(3 {4,5})\narr[1]+=x\necho \"$s ${arr[@]}\"\nset -- {a,b} c\nfor p in \"$@\"; do echo \"$p\"; done\nfor q; do echo $q; done\n",
	"cat <<EOF1; cat <<-EOF2\nbody $((1+1)) {a,b}\nEOF1\n\ttabbed $(echo {c,d})\n\tEOF2\necho $(echo {e,f}) `echo {g,h}`\ncase x{1,2} in x*) echo brace-literal;; esac\n[[ a{1,2} == a* ]] && echo t\n",
	"shopt -s expand_aliases\nalias d='declare '\nd v{1,2}=x\necho $v1$v2\nalias ex='export '\nex E{1,2}=y\necho $E1$E2\nalias lo='local '\nf() { lo L{1,2}=z; echo $L1$L2; }\nf\n",
}

func (p *c29) Gen(i int, r *rand.Rand) any {
	var c *ProgCase
	switch k := r.IntN(10); {
	case k < 2:
		c = &ProgCase{Src: c29Templates[r.IntN(len(c29Templates))], Source: "template"}
		if r.IntN(2) == 0 {
			extra, _ := gen.RunProgram(r, gen.RunOpts{Stmts: 2})
			c.Src += extra
		}
	case k < 4 && len(p.repoProgs) > 0:
		c = &ProgCase{Src: p.repoProgs[r.IntN(len(p.repoProgs))].In, Source: "repo"}
	default:
		src, tags := gen.RunProgram(r, gen.RunOpts{})
		c = &ProgCase{Src: src, Tags: tags, Source: "generated"}
	}
	c.Hist = []string{[]string{"1", "3", "3-reset"}[r.IntN(3)]}
	return c
}

// spyEnviron records writes to the Environ given to the Runner.
type spyEnviron struct {
	inner expand.Environ
	mu    sync.Mutex
	sets  []string
}

func (s *spyEnviron) Get(name string) expand.Variable { return s.inner.Get(name) }
func (s *spyEnviron) Each(f func(string, expand.Variable) bool) {
	s.inner.Each(f)
}
func (s *spyEnviron) Set(name string, vr expand.Variable) error {
	s.mu.Lock()
	s.sets = append(s.sets, fmt.Sprintf("%s=%v", name, vr))
	s.mu.Unlock()
	return nil
}

func eachDump(e expand.Environ) string {
	var sb strings.Builder
	e.Each(func(n string, v expand.Variable) bool {
		fmt.Fprintf(&sb, "%s=%q;", n, v.String())
		return true
	})
	return sb.String()
}

func (p *c29) Run(payload any) mon.Result {
	c := payload.(*ProgCase)
	var res mon.Result
	f, err := oracle.ParseBash([]byte(c.Src))
	if err != nil {
		return mon.Result{Verdict: mon.OutOfDomain, Reason: "does-not-parse"}
	}
	dir, err := oracle.ScratchDir(p.env.Build, "c29")
	if err != nil {
		return mon.Result{Verdict: mon.Inconclusive, Reason: "scratch-dir", Detail: err.Error()}
	}
	defer os.RemoveAll(dir)
	full := oracle.CanonOpts{Pos: true, Comments: true}
	before := oracle.Canon(f, full)
	var pb bytes.Buffer
	syntax.NewPrinter().Print(&pb, f)
	spy := &spyEnviron{inner: expand.ListEnviron(oracle.SealedEnv(p.env.Build, dir, "EXPORTED_X=1", "a=fromenv")...)}
	envBefore := eachDump(spy)
	out := &lockedBuf{}
	r, err := newStateRunner(p.env.Build, dir, out, []string{"p1", "p 2"}, interp.Env(spy))
	if err != nil {
		return mon.Result{Verdict: mon.Inconclusive, Reason: "new-failed", Detail: err.Error()}
	}
	runs := 1
	mode := "1"
	if len(c.Hist) > 0 {
		mode = c.Hist[0]
	}
	if strings.HasPrefix(mode, "3") {
		runs = 3
	}
	for k := 0; k < runs; k++ {
		_, pan, ok := runNode(r, f, 10*time.Second)
		if pan != nil {
			return mon.Result{Verdict: mon.OutOfDomain, Reason: "panic(C28)", Detail: fmt.Sprint(pan)}
		}
		if !ok {
			return mon.Result{Verdict: mon.Inconclusive, Reason: "run-timeout", Detail: clip(c.Src, 300)}
		}
		res.Evals++
		if mode == "3-reset" {
			r.Reset()
		}
		// check after every run: the first run is what usually does the damage
		after := oracle.Canon(f, full)
		if after != before {
			res.Fail("tree-modified", fmt.Sprintf("after run %d of %s (mode %s):\n%s\n%s", k+1, "the program", mode, c.Src, oracle.FirstDiff(before, after)))
			return res
		}
	}
	var pa bytes.Buffer
	syntax.NewPrinter().Print(&pa, f)
	if pa.String() != pb.String() {
		res.Fail("printed-form-changed", fmt.Sprintf("program:\n%s\nprinted before:\n%s\nprinted after:\n%s", c.Src, pb.String(), pa.String()))
		return res
	}
	if len(spy.sets) > 0 {
		res.Fail("env-written", fmt.Sprintf("program:\n%s\nRun called Set on the Environ given through interp.Env: %v", c.Src, spy.sets))
		return res
	}
	if envAfter := eachDump(spy); envAfter != envBefore {
		res.Fail("env-changed", fmt.Sprintf("program:\n%s\nEach before: %s\nEach after:  %s", c.Src, envBefore, envAfter))
		return res
	}
	res.Hash = mon.HashOf(c.Src, mode)
	res.Nontriv = strings.Contains(c.Src, "=") || strings.Contains(c.Src, "alias") || strings.Contains(c.Src, "()")
	res.Count("source:"+c.Source, 1)
	res.Count("mode:"+mode, 1)
	for _, t := range c.Tags {
		res.Count("feature:"+t, 1)
	}
	res.Sample = map[string]any{"source": c.Source, "mode": mode, "src": clip(c.Src, 200), "stdout": clip(out.String(), 80)}
	return res
}

func (p *c29) Shrink(payload any, still func(any) bool) any { return shrinkProg(payload, still) }
