package props

import (
	"fmt"
	"math/rand/v2"
	"sort"
	"strings"
	"time"

	"verif/mon"
)

// C21: parameter expansion matches bash.
type c21 struct{ base }

func init() { mon.Register(&c21{}) }

func (*c21) ID() string { return "C21" }
func (*c21) Rule() string {
	return "variable states (unset, empty, plain, IFS- and glob-laden scalars, dense and sparse indexed arrays, associative arrays, 0-11 positional parameters, set -u on and off) crossed with every parameter expansion form of expand/param.go: defaults and assignments (:- - := = :+ +), error-if-unset (:? ?), length, substrings with positive and negative offsets and lengths, prefix/suffix removal (# ## % %%), replacement (/ // /# /%), case conversion (^ ^^ , ,,), indirection (${!v} ${!p*} ${!p@} ${!a[@]}), the @ operators (Q U u L) and the element-wise forms on [i] [@] [*] @ and *; each printed by printf '<%s>' unquoted and quoted in bash 5.2 and in interp (batched, differences confirmed alone); fields and status must agree. @Q of a string that needs no quoting is normalised on both sides by shell-unquoting (the documented difference); associative [@]/[*] results are compared as multisets. Non-trivial: the batch ran; distinct: hash of the batch."
}
func (*c21) NumCases(tier string) int      { return tierN(tier, 100, 3300) }
func (*c21) MinNontrivial(tier string) int { return tierN(tier, 60, 2000) }
func (*c21) New() any                      { return &SnipBatch{} }
func (*c21) CaseTimeout() time.Duration    { return 300 * time.Second }
func (*c21) Assumptions() []string {
	return []string{"bash 5.2.15 is ground truth", "a snippet on which bash prints a diagnostic is out of domain unless the generator asked for it (:? forms and set -u)"}
}

var c21Carves = map[string][][]string{
	"C21-quoted-text-in-argument-is-split": {{"arg:quoted", "op::-"}, {"arg:quoted", "op:-"}, {"arg:quoted", "op::+"}, {"arg:quoted", "op:+"}, {"arg:quoted", "op::="}, {"arg:quoted", "op:="}},
	"C21-default-operators-on-list-forms": {{"list-form", "default-op"}},
	"C21-associative-array-element-wise":  {{"state:assoc", "list-form", "transforming-op"}},
	"C21-indirection-with-subscript":      {{"op:indirect", "subscripted"}, {"op:indirect", "array-state"}, {"op:indirect", "set-u"}, {"op:prefix-names", "set-u"}, {"op:keys", "set-u"}, {"op:indirect", "state:positional"}},
	"C21-at-operators-on-list-forms":      {{"list-form", "at-op"}},
	"C21-replacement-on-null-value":       {{"null-value", "replace-op"}},
	"C21-at-Q-quoting-style":              {{"op:@Q", "value-has-single-quote"}},
}

type pstate struct {
	setup string
	name  string   // variable to expand
	kind  string   // unset empty scalar ifs glob dense sparse assoc positional
	subs  []string // subscripts usable: "" for scalars
}

func (p *c21) genState(r *rand.Rand) pstate {
	switch r.IntN(11) {
	case 0:
		return pstate{"unset v", "v", "unset", []string{""}}
	case 1:
		return pstate{"v=", "v", "empty", []string{""}}
	case 2:
		return pstate{"v=" + shq([]string{"hello", "foobar", "abcabc", "Hello World", "aXbXc", "xyz"}[r.IntN(6)]), "v", "scalar", []string{""}}
	case 3:
		return pstate{"v=" + shq([]string{"a b  c", " lead", "trail ", "a\tb", "a\nb"}[r.IntN(5)]), "v", "ifs", []string{""}}
	case 4:
		return pstate{"v=" + shq([]string{"*", "a*b", "?", "[ab]", "a\\b", "it's", "$x", "~"}[r.IntN(8)]), "v", "glob", []string{""}}
	case 5:
		return pstate{"v=(alpha beta gamma delta)", "v", "dense", []string{"[0]", "[1]", "[-1]", "[@]", "[*]", "[9]", ""}}
	case 6:
		return pstate{"v=([1]=one [5]=five [9]=nine)", "v", "sparse", []string{"[1]", "[5]", "[2]", "[-1]", "[@]", "[*]", ""}}
	case 7:
		return pstate{"declare -A v=([k1]=val1 [k2]=val2)", "v", "assoc", []string{"[k1]", "[k2]", "[nokey]", "[@]", "[*]"}}
	case 8:
		n := r.IntN(12)
		var ps []string
		for i := 0; i < n; i++ {
			ps = append(ps, shq([]string{"p1", "two words", "", "p*", "Abc", "x"}[r.IntN(6)]))
		}
		return pstate{"set -- " + strings.Join(ps, " "), []string{"@", "*", "1", "2", "11", "10"}[r.IntN(6)], "positional", []string{""}}
	case 9:
		return pstate{"v=(\"\" \"a b\" \"\")", "v", "dense-with-empties", []string{"[0]", "[1]", "[@]", "[*]"}}
	default:
		return pstate{"pre_a=1 pre_b=2 prez=3 v=pre_a ref=v", []string{"v", "ref"}[r.IntN(2)], "indirect", []string{""}}
	}
}

func (p *c21) Gen(i int, r *rand.Rand) any {
	b := &SnipBatch{Prelude: "set -f\npz=3"}
	for k := 0; k < 120; k++ {
		st := p.genState(r)
		tags := map[string]bool{"state:" + st.kind: true}
		sub := st.subs[r.IntN(len(st.subs))]
		if sub != "" {
			t := sub
			if strings.HasPrefix(sub, "[k") || sub == "[nokey]" {
				t = "[key]"
			}
			tags["sub:"+t] = true
		}
		ref := st.name + sub
		pats := []string{"a", "?", "*", "a*", "*a", "[a-c]", "l", "o*", "[!a]", "al", "e", "\\*", "two", " "}
		pat := pats[r.IntN(len(pats))]
		word := []string{"dflt", "a b", "", "$pz", "\"q r\"", "*"}[r.IntN(6)]
		var e string
		fatal := false
		switch op := r.IntN(30); {
		case op < 4:
			o := []string{":-", "-", ":+", "+"}[r.IntN(4)]
			e = "${" + ref + o + word + "}"
			tags["op:"+o] = true
		case op < 6 && st.kind != "positional": // bash refuses to assign to positional parameters this way
			o := []string{":=", "="}[r.IntN(2)]
			e = "${" + ref + o + word + "}"
			tags["op:"+o] = true
		case op == 6:
			o := []string{":?", "?"}[r.IntN(2)]
			e = "${" + ref + o + "msg}"
			tags["op:"+o] = true
			tags["diag-ok"] = true
			fatal = true
		case op == 7:
			e = "${#" + ref + "}"
			tags["op:length"] = true
		case op < 11:
			off := []string{"1", "0", "2", " -1", " -2", "9", "$((1))", " -3", " -4", " -5", " -8", " -9", " -10", "5", "6"}[r.IntN(15)]
			if st.kind == "positional" && (off == "0" || strings.HasPrefix(off, " -")) {
				off = "1" // offset 0 and negative offsets reach $0, the script's own name
			}
			e = "${" + ref + ":" + off
			if r.IntN(2) == 0 {
				ln := []string{"1", "2", "0", "-1", "9"}[r.IntN(5)]
				if ln == "-1" && (st.kind != "scalar" || strings.HasPrefix(off, " -") || off == "9") {
					ln = "1" // a negative length past the start is an error in bash; keep it inside long scalars
				}
				e += ":" + ln
				if strings.HasPrefix(ln, "-") {
					tags["slice:negative-length"] = true
				}
			}
			e += "}"
			tags["op:slice"] = true
			if strings.HasPrefix(off, " -") {
				tags["slice:negative-offset"] = true
			}
		case op < 15:
			o := []string{"#", "##", "%", "%%"}[r.IntN(4)]
			e = "${" + ref + o + pat + "}"
			tags["op:"+o] = true
		case op < 19:
			o := []string{"/", "//", "/#", "/%"}[r.IntN(4)]
			e = "${" + ref + o + pat
			if r.IntN(3) > 0 {
				e += "/" + []string{"X", "", "a b", "Y Z"}[r.IntN(4)]
			}
			e += "}"
			tags["op:"+o] = true
		case op < 22:
			o := []string{"^", "^^", ",", ",,"}[r.IntN(4)]
			e = "${" + ref + o
			if r.IntN(3) == 0 {
				e += []string{"a", "[a-f]", "?"}[r.IntN(3)]
				tags["case:pattern"] = true
			}
			e += "}"
			tags["op:"+o] = true
		case op == 22:
			e = "${!" + ref + "}"
			tags["op:indirect"] = true
		case op == 23:
			e = "${!pre" + []string{"*", "@", "_*", "z@"}[r.IntN(4)] + "}"
			tags["op:prefix-names"] = true
		case op == 24:
			e = "${!" + st.name + []string{"[@]", "[*]"}[r.IntN(2)] + "}"
			tags["op:keys"] = true
		case op < 28:
			o := []string{"Q", "U", "u", "L", "Q", "U"}[r.IntN(6)]
			e = "${" + ref + "@" + o + "}"
			tags["op:@"+o] = true
		default:
			e = "${" + ref + "}"
			tags["op:plain"] = true
		}
		if strings.ContainsAny(word, "\"'") && (tags["op::-"] || tags["op:-"] || tags["op::+"] || tags["op:+"] || tags["op::="] || tags["op:="]) {
			tags["arg:quoted"] = true
		}
		if sub == "[@]" || sub == "[*]" || st.name == "@" || st.name == "*" {
			tags["list-form"] = true
		}
		if sub != "" {
			tags["subscripted"] = true
		}
		switch st.kind {
		case "dense", "sparse", "assoc", "dense-with-empties":
			tags["array-state"] = true
		}
		for _, o := range []string{":-", "-", ":+", "+", ":=", "=", ":?", "?"} {
			if tags["op:"+o] {
				tags["default-op"] = true
			}
		}
		for _, o := range []string{"Q", "U", "u", "L"} {
			if tags["op:@"+o] {
				tags["at-op"] = true
			}
		}
		for _, o := range []string{"/", "//", "/#", "/%"} {
			if tags["op:"+o] {
				tags["replace-op"] = true
			}
		}
		if st.kind == "unset" || st.kind == "empty" || sub == "[nokey]" || sub == "[9]" || sub == "[2]" || (st.kind == "positional" && st.name != "@" && st.name != "*") || (st.kind == "sparse" && sub == "") || st.kind == "dense-with-empties" {
			tags["null-value"] = true
		}
		if strings.Contains(st.setup, "it'") {
			tags["value-has-single-quote"] = true
		}
		if !tags["op:plain"] && !tags["op:length"] && !tags["default-op"] {
			tags["transforming-op"] = true
		}
		nounset := ""
		if r.IntN(8) == 0 && !tags["array-state"] {
			nounset = "set -u\n"
			tags["set-u"] = true
			tags["diag-ok"] = true
			fatal = true
		}
		if carvedBy(p.env.Findings, c21Carves, tags) {
			continue
		}
		src := fmt.Sprintf("unset v ref pre_a pre_b prez\nset --\n%s\n%sprintf '<%%s>' %s\necho \"|s=$?\"\nprintf '<%%s>' \"%s\"\necho \"|s=$?\"\nset +u", st.setup, nounset, e, e)
		if strings.Contains(e, "=") && (tags["op::="] || tags["op:="]) {
			src += "\nprintf '<%s>' \"${v[@]}\"\necho"
		}
		var tl []string
		for t := range tags {
			tl = append(tl, t)
		}
		sort.Strings(tl)
		b.Snips = append(b.Snips, Snip{Src: src, Tags: tl, Fatal: fatal})
	}
	return b
}

func (p *c21) Run(payload any) mon.Result {
	b := payload.(*SnipBatch)
	res := p.diffSnips(b, p.judge, nil)
	if res.Verdict == "" || res.Verdict == mon.Held {
		res.Hash = mon.HashOf(b)
		res.Nontriv = res.Evals > 0
		if len(b.Snips) > 0 {
			res.Sample = map[string]any{"snippets": len(b.Snips), "first": clip(b.Snips[0].Src, 300)}
		}
	}
	return res
}

func sortedFields(out string) string {
	parts := strings.Split(out, "\n")
	for i, ln := range parts {
		if !strings.Contains(ln, "|s=") && strings.HasPrefix(ln, "<") {
			ln += "|s="
		}
		if j := strings.Index(ln, "|s="); j >= 0 && strings.HasPrefix(ln, "<") {
			fs := strings.Split(strings.Trim(ln[:j], "<>"), "><")
			for k, f := range fs { // words inside one field (the [*] join) too
				ws := strings.Fields(f)
				sort.Strings(ws)
				fs[k] = strings.Join(ws, " ")
			}
			sort.Strings(fs)
			parts[i] = "<" + strings.Join(fs, "><") + ">" + ln[j:]
		}
	}
	return strings.Join(parts, "\n")
}

func (p *c21) judge(s Snip, bash, interp snipFrame) (string, string) {
	if hasTag(s.Tags, "state:assoc") {
		if sortedFields(bash.Out) == sortedFields(interp.Out) && bash.Status == interp.Status {
			return mon.Held, "assoc-order"
		}
	}
	if hasTag(s.Tags, "op:@Q") && bash.Status == interp.Status {
		// the documented difference: bash quotes strings that need no quoting
		un := func(x string) string { return strings.NewReplacer("'", "").Replace(x) }
		if un(bash.Out) == un(interp.Out) {
			return mon.Held, "@Q-needless-quotes"
		}
	}
	if hasTag(s.Tags, "slice:negative-length") && bash.Stderr && interp.Stderr && !strings.Contains(bash.Out, "|s=") {
		// both report "substring expression < 0"; under set -u bash 5.2 also
		// abandons the rest of the snippet, which is about how bash unwinds after an
		// expansion error (C26), not about what the expansion yields
		return mon.OutOfDomain, "bash-abandons-the-snippet-after-a-substring-error"
	}
	return "", ""
}
