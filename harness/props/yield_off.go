//go:build !verif

package props

func setVerifYield(f func(string)) {}
