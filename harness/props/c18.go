package props

import (
	"fmt"
	"math/rand/v2"
	"regexp"
	rsyntax "regexp/syntax"
	"strconv"
	"strings"
	"unicode/utf8"

	"mvdan.cc/sh/v3/pattern"
	"verif/mon"
)

// C18: QuoteMeta and HasMeta are consistent with matching.
type c18 struct{ base }

func init() { mon.Register(&c18{}) }

type MetaCase struct {
	S    []byte `json:"s"`
	SQ   string `json:"s_quoted"`
	Mode uint   `json:"mode"`
}

func (*c18) ID() string { return "C18" }
func (*c18) Rule() string {
	return "strings over the pattern metacharacter alphabet (* ? [ ] \\ ( ) | ! @ + ^ $ . { } -), letters and multi-byte runes (valid UTF-8 only: Go regexps decode invalid bytes as U+FFFD, so byte-exact matching of invalid UTF-8 cannot be observed through Regexp): exhaustively up to length 3 over a 14-symbol alphabet, then random up to length 12; for each mode combination drawn: q=QuoteMeta(s) must have HasMeta(q)==false and Regexp(q, EntireString|m) must compile to an expression whose regexp/syntax tree is exactly the anchored literal s (a complete decision that the language is {s}; case-folded under NoGlobCase), also confirmed by matching s and rejecting its single-edit neighbours; and when HasMeta(s)==false, Regexp(s) must be an error or the anchored literal unescape(s). Non-trivial: the string contains a metacharacter; distinct: hash of (string, mode)."
}
func (*c18) NumCases(tier string) int      { return tierN(tier, 40000, 2000000) }
func (*c18) MinNontrivial(tier string) int { return tierN(tier, 15000, 600000) }
func (*c18) New() any                      { return &MetaCase{} }
func (*c18) Assumptions() []string {
	return []string{"the regexp/syntax parse of the returned expression is trusted to describe its language", "modes: all combinations of Filenames, NoGlobCase, NoGlobStar, GlobLeadingDot, ExtendedOperators, Shortest, always with EntireString"}
}

var extOpRe = regexp.MustCompile(`[?*+@!]\(`)

var metaAlphabet = []string{"*", "?", "[", "]", "\\", "(", ")", "|", "!", "@", "+", "a", ".", "-"}
var metaExtra = []string{"^", "$", "{", "}", "/", "A", "b", "é", "日", "€", "ß", " ", "1", ",", ":", "~", "#"}

func (p *c18) Gen(i int, r *rand.Rand) any {
	n := len(metaAlphabet)
	var s string
	total := 1 + n + n*n + n*n*n
	if i < total {
		// exhaustive enumeration of lengths 0..3
		k := i
		switch {
		case k == 0:
		case k < 1+n:
			s = metaAlphabet[k-1]
		case k < 1+n+n*n:
			k -= 1 + n
			s = metaAlphabet[k/n] + metaAlphabet[k%n]
		default:
			k -= 1 + n + n*n
			s = metaAlphabet[k/(n*n)] + metaAlphabet[(k/n)%n] + metaAlphabet[k%n]
		}
	} else {
		l := 1 + r.IntN(12)
		var sb strings.Builder
		for j := 0; j < l; j++ {
			if r.IntN(3) == 0 {
				sb.WriteString(metaExtra[r.IntN(len(metaExtra))])
			} else {
				sb.WriteString(metaAlphabet[r.IntN(n)])
			}
		}
		s = sb.String()
	}
	mode := uint(r.IntN(64)) // bits: Shortest Filenames NoGlobCase NoGlobStar GlobLeadingDot ExtendedOperators
	return &MetaCase{S: []byte(s), SQ: strconv.Quote(s), Mode: mode}
}

func c18Mode(bits uint) pattern.Mode {
	m := pattern.EntireString
	for i, f := range []pattern.Mode{pattern.Shortest, pattern.Filenames, pattern.NoGlobCase, pattern.NoGlobStar, pattern.GlobLeadingDot, pattern.ExtendedOperators} {
		if bits&(1<<uint(i)) != 0 {
			m |= f
		}
	}
	return m
}

// literalOf returns the literal string a regexp denotes if its syntax tree is
// an anchored concatenation of literals, and whether it is case-folded.
func literalOf(expr string) (lit string, fold bool, ok bool) {
	re, err := rsyntax.Parse(expr, rsyntax.Perl)
	if err != nil {
		return "", false, false
	}
	var sb strings.Builder
	begin, end := false, false
	var walk func(r *rsyntax.Regexp) bool
	walk = func(r *rsyntax.Regexp) bool {
		switch r.Op {
		case rsyntax.OpLiteral:
			if r.Flags&rsyntax.FoldCase != 0 {
				fold = true
			}
			if end {
				return false
			}
			sb.WriteString(string(r.Rune))
			return true
		case rsyntax.OpConcat:
			for _, s := range r.Sub {
				if !walk(s) {
					return false
				}
			}
			return true
		case rsyntax.OpCapture:
			return walk(r.Sub[0])
		case rsyntax.OpEmptyMatch:
			return true
		case rsyntax.OpBeginText:
			if sb.Len() > 0 || begin {
				return false
			}
			begin = true
			return true
		case rsyntax.OpEndText:
			end = true
			return true
		case rsyntax.OpCharClass:
			// a class of exactly one rune, or one rune and its case variants under fold
			if len(r.Rune) == 2 && r.Rune[0] == r.Rune[1] {
				if end {
					return false
				}
				sb.WriteRune(r.Rune[0])
				return true
			}
			return false
		}
		return false
	}
	if !walk(re) || !begin || !end {
		return "", false, false
	}
	return sb.String(), fold, true
}

func unescapePattern(p string) string {
	var sb strings.Builder
	for i := 0; i < len(p); i++ {
		if p[i] == '\\' && i+1 < len(p) {
			i++
		}
		sb.WriteByte(p[i])
	}
	return sb.String()
}

func (p *c18) Run(payload any) mon.Result {
	c := payload.(*MetaCase)
	s := string(c.S)
	mode := c18Mode(c.Mode)
	var res mon.Result
	fail := func(reason, msg string) mon.Result {
		res.Fail(reason, fmt.Sprintf("s=%s mode=%06b\n%s", c.SQ, c.Mode, msg))
		return res
	}
	if mode&pattern.ExtendedOperators != 0 && extOpRe.Match(c.S) && p.env.Findings.Active("C18-extended-operators-not-quoted") {
		return mon.Result{Verdict: mon.OutOfDomain, Reason: "carved:C18-extended-operators-not-quoted"}
	}
	fold := mode&pattern.NoGlobCase != 0
	eq := func(a, b string) bool {
		if fold {
			return strings.EqualFold(a, b)
		}
		return a == b
	}
	// clause 1: QuoteMeta
	q := pattern.QuoteMeta(s, mode)
	if pattern.HasMeta(q, mode) {
		return fail("quotemeta-result-has-meta", fmt.Sprintf("QuoteMeta=%q but HasMeta reports true", q))
	}
	expr, err := pattern.Regexp(q, mode)
	if err != nil {
		return fail("quotemeta-result-rejected", fmt.Sprintf("QuoteMeta=%q: Regexp error %v", q, err))
	}
	re, err := regexp.Compile(expr)
	if err != nil {
		return fail("regexp-does-not-compile", fmt.Sprintf("QuoteMeta=%q expr=%q: %v", q, expr, err))
	}
	validS := utf8.ValidString(s)
	if !re.MatchString(s) {
		return fail("quotemeta-does-not-match-s", fmt.Sprintf("QuoteMeta=%q expr=%q does not match s", q, expr))
	}
	if lit, _, ok := literalOf(expr); !ok || (validS && !eq(lit, s)) {
		return fail("quotemeta-not-a-literal", fmt.Sprintf("QuoteMeta=%q expr=%q is not the anchored literal s (literal=%q ok=%v)", q, expr, lit, ok))
	}
	res.Evals = 2
	// single-edit neighbours must be rejected
	for i := 0; i <= len(s); i++ {
		for _, a := range []string{"a", "*", "\\", "x"} {
			n1 := s[:i] + a + s[i:]
			if re.MatchString(n1) && !eq(n1, s) {
				return fail("quotemeta-matches-other-string", fmt.Sprintf("QuoteMeta=%q expr=%q also matches %q", q, expr, n1))
			}
		}
		if i < len(s) {
			n2 := s[:i] + s[i+1:]
			if re.MatchString(n2) && !eq(n2, s) {
				return fail("quotemeta-matches-other-string", fmt.Sprintf("QuoteMeta=%q expr=%q also matches %q", q, expr, n2))
			}
		}
	}
	// clause 2: patterns without metacharacters
	if !pattern.HasMeta(s, mode) {
		res.Count("patterns_without_meta", 1)
		expr2, err := pattern.Regexp(s, mode)
		if err == nil {
			re2, cerr := regexp.Compile(expr2)
			if cerr != nil {
				return fail("regexp-does-not-compile", fmt.Sprintf("pattern %q expr=%q: %v", s, expr2, cerr))
			}
			want := unescapePattern(s)
			lit, _, ok := literalOf(expr2)
			if !ok || (validS && !eq(lit, want)) {
				// not a literal: find a witness string other than want that matches
				wit := ""
				for _, cand := range neighbours(want, s) {
					if re2.MatchString(cand) && !eq(cand, want) {
						wit = cand
						break
					}
				}
				return fail("nometa-pattern-not-a-literal", fmt.Sprintf("HasMeta(%q)=false but Regexp gives %q, which is not the anchored literal %q (also matches %q)", s, expr2, want, wit))
			}
			res.Evals++
		} else {
			res.Count("nometa_pattern_errors", 1)
		}
	}
	res.Hash = mon.HashOf(c.S, c.Mode)
	res.Nontriv = strings.ContainsAny(s, "*?[]\\()|!@+")
	res.Count(fmt.Sprintf("mode:%06b", c.Mode), 1)
	if !validS {
		res.Count("invalid_utf8_strings", 1)
	}
	res.Sample = map[string]any{"s": c.SQ, "mode": fmt.Sprintf("%06b", c.Mode), "quoted": q}
	return res
}

func neighbours(want, pat string) []string {
	out := []string{"", "a", "b", pat}
	for _, alt := range []string{"a", "b", "ab", "aa"} {
		out = append(out, alt)
	}
	// strings an extended operator could match
	for _, part := range strings.FieldsFunc(pat, func(r rune) bool { return strings.ContainsRune("@+?*!()|", r) }) {
		out = append(out, part, part+part)
	}
	return out
}
