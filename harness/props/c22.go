package props

import (
	"fmt"
	"math/rand/v2"
	"sort"
	"strings"
	"time"
	"unicode/utf8"

	"mvdan.cc/sh/v3/expand"
	"mvdan.cc/sh/v3/syntax"
	"verif/mon"
)

// C22: field splitting and quote removal match bash.
type c22 struct{ base }

func init() { mon.Register(&c22{}) }

func (*c22) ID() string { return "C22" }
func (*c22) Rule() string {
	return "for an IFS value (unset, empty, default, ' ', ':', ': ', ' :', ',;', newline, 'x', ': ,') and variables whose values put IFS characters at the start, middle and end, doubled and mixed with whitespace, a word mixing $v \"$v\" '$v' $v$w \"$v\"$w $(echo \"$v\") `...` $@ \"$@\" $* \"$*\" ${a[@]} \"${a[*]}\" x$@y \"\" '' and literals glued to expansions is expanded by printf '<%s>' WORD in bash 5.2 and in interp (120 snippets per batch, differences confirmed alone), and, for words over scalar variables only, by expand.Fields through the Go API with the same variables. Oracle: identical field lists, three ways. Non-trivial: the batch ran; distinct: hash of the batch."
}
func (*c22) NumCases(tier string) int      { return tierN(tier, 100, 2500) }
func (*c22) MinNontrivial(tier string) int { return tierN(tier, 60, 1500) }
func (*c22) New() any                      { return &SnipBatch{} }
func (*c22) CaseTimeout() time.Duration    { return 300 * time.Second }
func (*c22) Assumptions() []string {
	return []string{"bash 5.2.15 with LC_ALL=C.UTF-8 is ground truth", "multi-byte IFS characters are not generated: bash 5.2 itself treats the bytes of such a character as separate delimiters in some contexts and emits invalid UTF-8 in others, so it is no reference there", "globbing is switched off (set -f): pathname expansion is C19's"}
}

var c22Carves = map[string][][]string{
	"C22-unquoted-list-elements-with-nonws-ifs": {{"ifs-has-non-whitespace", "at"}, {"ifs-has-non-whitespace", "star"}, {"ifs-has-non-whitespace", "array-at"}, {"ifs-has-non-whitespace", "glued-at"}, {"ifs-has-non-whitespace", "quoted-at"}, {"ifs-has-non-whitespace", "quoted-array-at"}, {"ifs-has-non-whitespace", "quoted-star"}, {"ifs-has-non-whitespace", "quoted-array-star"}},
}

type ifsChoice struct {
	set  string // shell text setting IFS
	val  string
	name string
	nows bool // has a non-whitespace character
}

var ifsChoices = []ifsChoice{
	{"unset IFS", " \t\n", "unset", false},
	{"IFS=", "", "empty", false},
	{"IFS=$' \\t\\n'", " \t\n", "default", false},
	{"IFS=:", ":", "colon", true},
	{"IFS=': '", ": ", "colon-space", true},
	{"IFS=' :'", " :", "space-colon", true},
	{"IFS=',;'", ",;", "comma-semicolon", true},
	{"IFS=$'\\n'", "\n", "newline", false},
	{"IFS=x", "x", "x", true},
	{"IFS=': ,'", ": ,", "mixed", true},
	{"IFS=' '", " ", "space", false},
}

func (p *c22) genValue(r *rand.Rand, ifs ifsChoice) string {
	seps := []rune(ifs.val)
	if len(seps) == 0 {
		seps = []rune{' ', ':'}
	}
	var sb strings.Builder
	for n := r.IntN(6); n > 0; n-- {
		switch r.IntN(5) {
		case 0, 1:
			sb.WriteString([]string{"a", "bc", "d", "e f", "*", "q"}[r.IntN(6)])
		case 2:
			sb.WriteRune(seps[r.IntN(len(seps))])
		case 3:
			sb.WriteRune(seps[r.IntN(len(seps))])
			sb.WriteRune(seps[r.IntN(len(seps))])
		default:
			sb.WriteString([]string{" ", "\t", "  "}[r.IntN(3)])
		}
	}
	return sb.String()
}

func (p *c22) Gen(i int, r *rand.Rand) any {
	b := &SnipBatch{Prelude: "set -f"}
	for k := 0; k < 120; k++ {
		ifs := ifsChoices[r.IntN(len(ifsChoices))]
		tags := map[string]bool{"ifs:" + ifs.name: true}
		v, w := p.genValue(r, ifs), p.genValue(r, ifs)
		nparams := r.IntN(4)
		var params []string
		for j := 0; j < nparams; j++ {
			params = append(params, shq(p.genValue(r, ifs)))
		}
		arr := []string{shq(p.genValue(r, ifs)), shq(p.genValue(r, ifs))}
		pieces := []struct {
			s   string
			tag string
		}{{"$v", "unquoted-var"}, {"\"$v\"", "quoted-var"}, {"'$v'", "single-quoted"}, {"$v$w", "adjacent-vars"}, {"\"$v\"$w", "quoted-then-unquoted"}, {"$(echo \"$v\")", "cmdsubst"}, {"`echo \"$w\"`", "backquote"}, {"$@", "at"}, {"\"$@\"", "quoted-at"}, {"$*", "star"}, {"\"$*\"", "quoted-star"}, {"${a[@]}", "array-at"}, {"\"${a[*]}\"", "quoted-array-star"}, {"\"${a[@]}\"", "quoted-array-at"}, {"x$@y", "glued-at"}, {"\"\"", "empty-dq"}, {"''", "empty-sq"}, {"lit", "literal"}, {"${v:-d e}", "default-value"}, {"${w}z", "var-then-literal"}, {"p\"$v\"q", "literal-quoted-literal"}, {"\"a $v b\"", "var-inside-dq"}, {"$v\"\"", "var-then-empty-dq"}, {"\\ ", "escaped-space"}}
		var word strings.Builder
		scalarOnly := true
		for n := 1 + r.IntN(3); n > 0; n-- {
			pc := pieces[r.IntN(len(pieces))]
			word.WriteString(pc.s)
			tags[pc.tag] = true
			if strings.ContainsAny(pc.s, "@*(`") {
				scalarOnly = false
			}
		}
		if scalarOnly {
			tags["api-checked"] = true
		}
		src := fmt.Sprintf("unset v w a\n%s\nv=%s\nw=%s\na=(%s)\nset -- %s\nprintf '<%%s>' %s\necho \"|s=$?\"", ifs.set, shq(v), shq(w), strings.Join(arr, " "), strings.Join(params, " "), word.String())
		if ifs.nows {
			tags["ifs-has-non-whitespace"] = true
		}
		if carvedBy(p.env.Findings, c22Carves, tags) {
			continue
		}
		var tl []string
		for t := range tags {
			tl = append(tl, t)
		}
		sort.Strings(tl)
		// the Go API leg needs the pieces back: keep them in the tags' stead via Setup-free encoding
		b.Snips = append(b.Snips, Snip{Src: src, Tags: append(tl, "ifsval:"+ifs.val, "v:"+v, "w:"+w, "word:"+word.String())})
	}
	return b
}

func carvedBy(f *mon.Findings, carves map[string][][]string, tags map[string]bool) bool {
	for id, conjs := range carves {
		if !f.Carved(id) {
			continue
		}
		for _, conj := range conjs {
			all := true
			for _, t := range conj {
				if !tags[t] {
					all = false
				}
			}
			if all {
				return true
			}
		}
	}
	return false
}

func tagValue(tags []string, prefix string) (string, bool) {
	for _, t := range tags {
		if strings.HasPrefix(t, prefix) {
			return strings.TrimPrefix(t, prefix), true
		}
	}
	return "", false
}

func (p *c22) Run(payload any) mon.Result {
	b := payload.(*SnipBatch)
	res := p.diffSnips(b, func(s Snip, bash, interp snipFrame) (string, string) {
		if !utf8.ValidString(bash.Out) && utf8.ValidString(interp.Out) {
			// bash 5.2 cuts a multi-byte IFS character in half in some quoted
			// contexts and prints invalid UTF-8; that is not a reference
			return mon.OutOfDomain, "bash-output-is-not-valid-utf8"
		}
		return "", ""
	}, nil)
	if res.Verdict == mon.Violated {
		return res
	}
	// third leg: expand.Fields through the Go API must agree with interp (and thereby bash)
	var apiSnips []Snip
	for _, s := range b.Snips {
		if hasTag(s.Tags, "api-checked") && !hasTag(s.Tags, "ifs:empty") {
			apiSnips = append(apiSnips, s)
		}
	}
	if len(apiSnips) > 0 {
		_, iF, err := p.runSnips(b.Prelude, apiSnips, false, nil)
		if err != nil || len(iF) != len(apiSnips) {
			return res
		}
		for k, s := range apiSnips {
			if !iF[k].OK {
				continue
			}
			ifsv, _ := tagValue(s.Tags, "ifsval:")
			v, _ := tagValue(s.Tags, "v:")
			w, _ := tagValue(s.Tags, "w:")
			word, _ := tagValue(s.Tags, "word:")
			f, err := syntax.NewParser().Parse(strings.NewReader("x "+word), "")
			if err != nil || len(f.Stmts) != 1 {
				continue
			}
			ce, ok := f.Stmts[0].Cmd.(*syntax.CallExpr)
			if !ok || len(ce.Args) < 2 {
				continue
			}
			pairs := []string{"v=" + v, "w=" + w}
			if !hasTag(s.Tags, "ifs:unset") {
				pairs = append(pairs, "IFS="+ifsv)
			}
			fields, err := expand.Fields(&expand.Config{Env: expand.ListEnviron(pairs...)}, ce.Args[1:]...)
			if err != nil {
				continue
			}
			apiOut := ""
			for _, fl := range fields {
				apiOut += "<" + fl + ">"
			}
			if len(fields) == 0 {
				apiOut = "<>" // printf '<%s>' with no arguments prints <>
			}
			res.Count("api_compared", 1)
			if got := strings.TrimSuffix(iF[k].Out, "|s=0\n"); got != apiOut {
				res.Fail("expand-fields-differs-from-interp", fmt.Sprintf("IFS=%q v=%q w=%q word: %s\n  expand.Fields: %s\n  interp:        %s", ifsv, v, w, word, apiOut, got))
				res.Payload = &SnipBatch{Prelude: b.Prelude, Snips: []Snip{s}}
				return res
			}
		}
	}
	res.Hash = mon.HashOf(b)
	res.Nontriv = res.Evals > 0
	if len(b.Snips) > 0 {
		res.Sample = map[string]any{"snippets": len(b.Snips), "first": clip(b.Snips[0].Src, 300)}
	}
	return res
}
