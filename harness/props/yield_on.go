//go:build verif

package props

import "mvdan.cc/sh/v3/interp"

func setVerifYield(f func(string)) { interp.VerifYield = f }
