package props

import (
	"context"
	"fmt"
	"math/rand/v2"
	"os"
	"sort"
	"strings"
	"time"

	"verif/mon"
	"verif/oracle"
)

// C27: subshells cannot change the parent shell.
type c27 struct{ base }

func init() { mon.Register(&c27{}) }

type IsoCase struct {
	Prelude   string `json:"prelude"`
	S         string `json:"mutation"`
	Construct string `json:"construct"` // name of the isolating construct
	InFunc    bool   `json:"in_function,omitempty"`
	API       bool   `json:"api_subshell,omitempty"` // use Runner.Subshell() through the Go API instead of shell syntax
}

func (*c27) ID() string { return "C27" }
func (*c27) Rule() string {
	return "a parent state (scalars, dense and sparse indexed arrays incl. ones with spare capacity, associative arrays, exported/readonly/integer-looking variables, namerefs, functions, aliases, set/shopt options, a working directory below the scratch root, positional parameters; optionally inside a function with locals) is built by one Run call; then a list S of mutating statements (assignments, += on scalars and on array names, a[i]=, a+=(..), a[i]+=, unset of variables/elements/functions, declare -g, export, readonly, : ${v:=x}, ((v++)), read, mapfile, getopts, function (re)definition, alias/unalias, set -e/-u/-f/-o pipefail, shopt -s/-u, cd, pushd, set --, shift, trap) runs inside an isolating construct: ( S ), x=$( S ), `S`, cat <( S ), : > >( S ), S | cat (a non-last pipeline stage), S & wait, and Runner.Subshell() driven through the Go API. Oracle: Runner.Vars, the printed Runner.Funcs, Dir and Params, and the output of a dump program (alias; set +o; shopt; pwd; $#:$*; dirs) are identical before and after. Non-trivial: always (every case mutates); distinct: hash of the case."
}
func (*c27) NumCases(tier string) int      { return tierN(tier, 3000, 40000) }
func (*c27) MinNontrivial(tier string) int { return tierN(tier, 1500, 20000) }
func (*c27) New() any                      { return &IsoCase{} }
func (*c27) Race(tier string) bool         { return tier == "thorough" }
func (*c27) CaseTimeout() time.Duration    { return 120 * time.Second }
func (*c27) Assumptions() []string {
	return []string{"the claim is about interp itself, so no real shell is involved", "the last stage of a pipeline is not used as an isolating construct: the property says 'as a pipeline stage', and bash itself runs the last stage in a subshell, but interp documents running it in the parent shell (covered by C26's domain instead)"}
}

var isoPreludes = []string{
	"v=one\nw='two words'\nn=5\nempty=\n",
	"a=(x y z)\nb=(1 2)\n",
	"a=([1]=x [5]=y [9]=z)\n",       // sparse, index list with spare capacity
	"a=(p q r s t)\nunset 'a[1]'\n", // dense that became sparse
	"a=([2]=only)\n",
	"declare -A m=([k1]=v1 [k2]=v2)\n",
	"export ex=exported\nreadonly ro=fixed\ndeclare -i num=3\n",
	"target=tv\ndeclare -n ref=target\n",
	"f1() { echo f1; }\nf2() { echo f2 \"$@\"; }\n",
	"shopt -s expand_aliases\nalias al1='echo one'\nalias al2='echo two '\n",
	"set -f\nset -o pipefail\nshopt -s nullglob\n",
	"mkdir -p d1/d2 d3\ncd d1\n",
	"set -- p1 'p 2' p3\n",
	"mkdir -p s1 s2\npushd s1 >/dev/null\n",
	"IFS=:\nOPTIND=1\nREPLY=r\n",
	"trap 'echo t' EXIT\n",
}

var isoMutations = []string{
	"v=changed", "v+=more", "w=", "newvar=1", "n=$((n+1))", "((n++))", "let n+=2", ": ${unsetv:=assigned}", ": ${empty:=filled}",
	"a+=z", "a+=(more)", "a[0]=changed", "a[3]=q", "a[1]=filled", "a[7]=hole", "a[20]=far", "a[0]+=suffix", "a[-1]=last", "a=(replaced)", "a=()", "b+=(3 4)", "a+=([3]=mid)", "a+=([0]=zero)",
	"unset v", "unset a", "unset 'a[0]'", "unset 'a[5]'", "unset -f f1", "unset m", "unset 'm[k1]'", "m[k3]=v3", "m[k1]=changed", "m+=([k9]=v9)",
	"declare -g gl=1", "export v", "export ex=other", "export -n ex", "readonly v", "declare -r w", "declare -a v", "declare -x n", "num+=4", "ref=via", "declare -n ref2=v",
	"read v <<< 'from read'", "read -a a <<< '1 2 3'", "mapfile -t a <<< $'l1\\nl2'", "getopts ab: opt -a -b x", "printf -v v '%s' formatted",
	"f1() { echo redefined; }", "f3() { :; }", "alias al1='echo changed'", "unalias al2", "alias al3=new", "unalias -a",
	"set -e", "set -u", "set +f", "set -f", "set +o pipefail", "set -o pipefail", "set -o noglob", "shopt -u nullglob", "shopt -s globstar", "shopt -s extglob", "shopt -u expand_aliases",
	"cd ..", "cd /", "cd d2", "pushd .. >/dev/null", "popd >/dev/null", "cd \"$HOME\"",
	"set -- changed", "set --", "shift", "shift 2", "set -- \"$@\" extra",
	"trap 'echo other' EXIT", "trap - EXIT", "IFS=,", "OPTIND=7", "PWD=/fake", "HOME=/fake", "PATH=/nowhere",
	"for v in 1 2 3; do :; done", "while read -r w; do :; done <<< 'x y'", "case x in x) v=incase;; esac", "if true; then a[2]=inif; fi", "eval 'v=evaled; a+=(e)'", "v=$(echo nested; exit 3)", "f2() { v=infunc; a+=(f); }; f2",
	"local_test() { local v=loc; a+=(l); unset w; }; local_test", "{ v=grp; a[1]=grp; }", "exec 3>&1", "source /dev/null", "true && v=andor || v=or", "v=1 w=2 n=3", "a[n]=byvar", "a[n+1]=expr",
	"exit 3", "return 2", "break", "v=pre; exit 0; v=post",
}

var isoConstructs = []string{"subshell", "cmdsubst", "backquote", "procsubst-in", "procsubst-out", "pipe-first", "pipe-middle", "background-wait", "cmdsubst-in-assign", "subshell-in-function", "nested-subshell", "api-subshell"}

func (p *c27) Gen(i int, r *rand.Rand) any {
	c := &IsoCase{}
	n := 1 + r.IntN(4)
	seen := map[int]bool{}
	for k := 0; k < n; k++ {
		j := r.IntN(len(isoPreludes))
		if !seen[j] {
			seen[j] = true
			c.Prelude += isoPreludes[j]
		}
	}
	var ms []string
	for k := 1 + r.IntN(4); k > 0; k-- {
		ms = append(ms, isoMutations[r.IntN(len(isoMutations))])
	}
	c.S = strings.Join(ms, "\n")
	c.Construct = isoConstructs[r.IntN(len(isoConstructs))]
	c.InFunc = r.IntN(5) == 0
	return c
}

const isoDump = "alias\nset +o\nshopt\npwd\necho \"$#:$*\"\ndirs\necho \"$-\"\n"

func wrapConstruct(name, s string) string {
	switch name {
	case "subshell":
		return "(\n" + s + "\n) >/dev/null 2>&1"
	case "nested-subshell":
		return "( :; (\n" + s + "\n) ) >/dev/null 2>&1"
	case "cmdsubst":
		return ": \"$(\n" + s + "\n)\" 2>/dev/null"
	case "cmdsubst-in-assign":
		return "isoresult=$(\n" + s + "\n) 2>/dev/null\nunset isoresult"
	case "backquote":
		if strings.ContainsAny(s, "`\\") {
			return ": \"$(\n" + s + "\n)\" 2>/dev/null"
		}
		return ": \"`\n" + s + "\n`\" 2>/dev/null"
	case "procsubst-in":
		return "cat <(\n" + s + "\n) >/dev/null 2>&1"
	case "procsubst-out":
		return ": > >(\n" + s + "\n) 2>/dev/null\nwait"
	case "pipe-first":
		return "{\n" + s + "\n} 2>/dev/null | cat >/dev/null"
	case "pipe-middle":
		return "true | {\n" + s + "\n} 2>/dev/null | cat >/dev/null"
	case "background-wait":
		return "{\n" + s + "\n} >/dev/null 2>&1 &\nwait"
	case "subshell-in-function":
		return "isofn() {\n(\n" + s + "\n) >/dev/null 2>&1\n}\nisofn a b\nunset -f isofn"
	}
	return "(\n" + s + "\n) >/dev/null 2>&1"
}

func (p *c27) Run(payload any) mon.Result {
	c := payload.(*IsoCase)
	var res mon.Result
	dir, err := oracle.ScratchDir(p.env.Build, "c27")
	if err != nil {
		return mon.Result{Verdict: mon.Inconclusive, Reason: "scratch-dir", Detail: err.Error()}
	}
	defer os.RemoveAll(dir)
	prelude := c.Prelude
	body := wrapConstruct(c.Construct, c.S)
	if c.InFunc && c.Construct != "api-subshell" {
		// the construct runs inside a function that has locals of the same names
		body = "isoouter() {\nlocal lv=loc v=shadow\nlocal la=(1 2)\n" + body + "\n}\nisoouter x y\nunset -f isoouter"
	}
	pf, err := oracle.ParseBash([]byte(prelude))
	if err != nil {
		return mon.Result{Verdict: mon.OutOfDomain, Reason: "prelude-does-not-parse", Detail: err.Error()}
	}
	df, _ := oracle.ParseBash([]byte(isoDump))
	out := &lockedBuf{}
	r, err := newStateRunner(p.env.Build, dir, out, []string{"orig1", "orig 2"})
	if err != nil {
		return mon.Result{Verdict: mon.Inconclusive, Reason: "new-failed", Detail: err.Error()}
	}
	const to = 10 * time.Second
	ctx, cancel := context.WithTimeout(context.Background(), 4*to)
	defer cancel()
	// the prelude runs statement by statement so that a whole-file run does not fire the EXIT trap
	for _, st := range pf.Stmts {
		if _, pan, ok := runNodeCtx(ctx, r, st, to); pan != nil || !ok {
			return mon.Result{Verdict: mon.Inconclusive, Reason: "prelude-failed", Detail: prelude}
		}
	}
	snap := func() (string, bool) {
		out.Reset()
		for _, st := range df.Stmts {
			if _, pan, ok := runNodeCtx(ctx, r, st, to); pan != nil || !ok {
				return "", false
			}
		}
		dl := strings.Split(out.String(), "\n")
		sort.Strings(dl) // alias prints in map order
		d := "== dump ==\n" + strings.Join(dl, "\n") + "\n== vars ==\n" + varsDump(r.Vars, dir) + "== funcs ==\n" + funcsDump(r.Funcs) + "== dir ==\n" + strings.ReplaceAll(r.Dir, dir, "<SCRATCH>") + "\n== params ==\n" + fmt.Sprintf("%q\n", r.Params)
		out.Reset()
		return d, true
	}
	before, ok := snap()
	if !ok {
		return mon.Result{Verdict: mon.Inconclusive, Reason: "dump-failed"}
	}
	res.Evals = 1
	if c.Construct == "api-subshell" {
		sf, err := oracle.ParseBash([]byte(c.S + "\n"))
		if err != nil {
			return mon.Result{Verdict: mon.OutOfDomain, Reason: "mutation-does-not-parse"}
		}
		sub := r.Subshell()
		for _, st := range sf.Stmts {
			_, pan, ok := runNodeCtx(ctx, sub, st, to)
			if pan != nil {
				return mon.Result{Verdict: mon.OutOfDomain, Reason: "panic(C28)", Detail: fmt.Sprint(pan)}
			}
			if !ok {
				return mon.Result{Verdict: mon.Inconclusive, Reason: "subshell-run-timeout", Detail: c.S}
			}
			if sub.Exited() {
				break
			}
		}
	} else {
		bf, err := oracle.ParseBash([]byte(body + "\n"))
		if err != nil {
			return mon.Result{Verdict: mon.OutOfDomain, Reason: "construct-does-not-parse", Detail: err.Error() + "\n" + body}
		}
		for _, st := range bf.Stmts {
			_, pan, ok := runNodeCtx(ctx, r, st, to)
			if pan != nil {
				return mon.Result{Verdict: mon.OutOfDomain, Reason: "panic(C28)", Detail: fmt.Sprint(pan)}
			}
			if !ok {
				return mon.Result{Verdict: mon.Inconclusive, Reason: "construct-run-timeout", Detail: body}
			}
			if r.Exited() {
				// the construct must not make the parent exit either
				res.Fail("parent-exited", fmt.Sprintf("prelude:\n%s\nconstruct (%s):\n%s\nthe parent Runner reports Exited() after the isolating construct", prelude, c.Construct, body))
				return res
			}
		}
	}
	after, ok := snap()
	if !ok {
		return mon.Result{Verdict: mon.Inconclusive, Reason: "dump-failed-after", Detail: body}
	}
	res.Count("construct:"+c.Construct, 1)
	if before != after {
		if id := p.explained(c, before, after); id != "" {
			res.Verdict, res.Reason = mon.Known, id
			res.Hash = mon.HashOf(c)
			res.Nontriv = true
			return res
		}
		res.Fail("parent-state-changed", fmt.Sprintf("prelude:\n%s\nconstruct (%s):\n%s\nfirst difference in the parent's state, %s", prelude, c.Construct, body, firstDiffLine(before, after)))
		return res
	}
	res.Hash = mon.HashOf(c)
	res.Nontriv = true
	res.Sample = map[string]any{"construct": c.Construct, "mutation": c.S, "prelude": clip(c.Prelude, 120)}
	return res
}

// explained applies the difference predicates of known findings.
func (p *c27) explained(c *IsoCase, before, after string) string {
	return ""
}

func (p *c27) Shrink(payload any, still func(any) bool) any {
	c := *(payload.(*IsoCase))
	// drop mutation lines, then prelude lines
	for _, field := range []*string{&c.S, &c.Prelude} {
		lines := strings.Split(strings.TrimRight(*field, "\n"), "\n")
		for i := 0; i < len(lines); {
			cand := append(append([]string{}, lines[:i]...), lines[i+1:]...)
			d := c
			if field == &c.S {
				d.S = strings.Join(cand, "\n")
			} else {
				d.Prelude = strings.Join(cand, "\n")
				if len(cand) > 0 {
					d.Prelude += "\n"
				}
			}
			if len(cand) > 0 || field == &c.Prelude {
				if still(&d) {
					lines = cand
					if field == &c.S {
						c.S = d.S
					} else {
						c.Prelude = d.Prelude
					}
					continue
				}
			}
			i++
		}
	}
	return &c
}
