package props

import (
	"bytes"
	"fmt"
	"io"
	"math/rand/v2"
	"runtime"
	"strconv"
	"strings"
	"syscall"
	"time"

	"mvdan.cc/sh/v3/syntax"
	"mvdan.cc/sh/v3/syntax/typedjson"
	"verif/gen"
	"verif/mon"
)

// C06: parsing and printing never crash or hang.
type c06 struct{ base }

func init() { mon.Register(&c06{}) }

type CrashCase struct {
	Src     []byte   `json:"src"`
	SrcQ    string   `json:"src_quoted"`
	Lang    string   `json:"lang"`
	Source  string   `json:"source"`
	Entry   string   `json:"entry"` // Parse StmtsSeq WordsSeq InteractiveSeq Document Arithmetic
	Keep    bool     `json:"keep_comments"`
	StopAt  string   `json:"stop_at,omitempty"`
	Recover int      `json:"recover_errors,omitempty"`
	StopIt  int      `json:"stop_iter_after,omitempty"` // break out of an iterator after k items (0: never)
	Family  string   `json:"family,omitempty"`          // scalable timing family, if any
	Prior   [][]byte `json:"prior,omitempty"`           // inputs the same Parser object parsed before (a Parser may be reused)
}

func (*c06) ID() string { return "C06" }
func (*c06) Rule() string {
	return "byte strings from: uniform random bytes, dictionary-biased random tokens, the corpus and grammar programs (all variants) under byte-level mutation; crossed with entry point (Parse, StmtsSeq, WordsSeq, InteractiveSeq, Document, Arithmetic), KeepComments, StopAt and RecoverErrors, a quarter of them on a Parser object that already parsed 1-3 other (truncated, mutated, heredoc-pending) inputs; every tree returned without error (RecoverErrors trees included) is printed under 3 option points, simplified, walked, JSON-encoded and debug-printed. A panic, a dying worker process or a single call burning > 20 s of thread CPU time is a violation; scalable input families are timed over successive doublings for super-linear growth. Non-trivial: input of >= 2 bytes; distinct: hash of the whole case."
}
func (*c06) NumCases(tier string) int      { return tierN(tier, 40000, 1200000) }
func (*c06) MinNontrivial(tier string) int { return tierN(tier, 15000, 400000) }
func (*c06) New() any                      { return &CrashCase{} }
func (*c06) CrashIsViolation() bool        { return true }
func (*c06) CaseTimeout() time.Duration    { return 180 * time.Second }
func (*c06) Assumptions() []string {
	return []string{"trees returned together with a non-nil error are partial and are not printed", "StopAt words that the API documents as invalid (longer than 4 bytes, containing whitespace) are not used", "time is thread CPU time (getrusage RUSAGE_THREAD); the wall-clock watchdog only yields inconclusive"}
}

var entries = []string{"Parse", "Parse", "Parse", "StmtsSeq", "WordsSeq", "InteractiveSeq", "Document", "Arithmetic"}
var stopAts = []string{"", "", "", "$$", "EOF", "}", "@", "%%", "é", "#"}

var families = []string{"parens", "braces", "cmdsubst", "backquotes", "dquote-cmdsubst", "param-default", "arith-parens", "test-parens", "heredocs", "long-word", "escaped-newlines", "semicolons", "pipes", "case-items", "array-elems", "if-nest", "comments"}

func (p *c06) Gen(i int, r *rand.Rand) any {
	c := &CrashCase{Lang: langName(Variants[r.IntN(len(Variants))]), Entry: entries[r.IntN(len(entries))], Keep: r.IntN(2) == 0, StopAt: stopAts[r.IntN(len(stopAts))]}
	if r.IntN(3) == 0 {
		c.Recover = []int{1, 3, 100}[r.IntN(3)]
	}
	if r.IntN(5) == 0 {
		c.StopIt = 1 + r.IntN(3)
	}
	if i < len(families) {
		c.Family = families[i]
		c.Source = "family"
		c.Entry, c.StopAt, c.Recover, c.StopIt = "Parse", "", 0, 0
		c.Lang = "bash"
		return c
	}
	var src string
	switch k := r.IntN(10); {
	case k == 0:
		n := r.IntN(64)
		b := make([]byte, n)
		for j := range b {
			b[j] = byte(r.IntN(256))
		}
		src, c.Source = string(b), "random-bytes"
	case k < 3:
		var sb strings.Builder
		for j := r.IntN(24); j >= 0; j-- {
			sb.WriteString(gen.Dict[r.IntN(len(gen.Dict))])
			if r.IntN(3) == 0 {
				sb.WriteString(" ")
			}
		}
		src, c.Source = sb.String(), "random-tokens"
	case k < 6:
		a := p.corpus.Snippets[r.IntN(len(p.corpus.Snippets))]
		b := p.corpus.Snippets[r.IntN(len(p.corpus.Snippets))]
		src, c.Source = gen.MutateBytes(r, a, b), "corpus-mutant"
	case k < 8:
		a, _ := gen.Program(r, gen.SynOpts{Lang: langByName(c.Lang), Mixed: r.IntN(2) == 0, Depth: 1 + r.IntN(4), Comments: true, Hostile: true})
		if r.IntN(2) == 0 {
			a = gen.MutateBytes(r, a, p.corpus.Snippets[r.IntN(len(p.corpus.Snippets))])
		}
		src, c.Source = a, "grammar-mutant"
	case k == 8:
		src, c.Source = p.corpus.Snippets[r.IntN(len(p.corpus.Snippets))], "corpus"
	default:
		// arithmetic / document flavoured inputs
		a, _ := gen.Program(r, gen.SynOpts{Lang: langByName(c.Lang), Depth: 2})
		src, c.Source = gen.MutateBytes(r, "1 + "+a+" * (x++ ? y : z[2]) "+gen.Dict[r.IntN(len(gen.Dict))], ""), "arith-ish"
	}
	c.Src = []byte(src)
	c.SrcQ = strconv.Quote(src)
	if r.IntN(4) == 0 {
		// a reused parser: earlier inputs that end in errors at awkward places
		for k := 1 + r.IntN(3); k > 0; k-- {
			h := p.corpus.Snippets[r.IntN(len(p.corpus.Snippets))]
			switch r.IntN(4) {
			case 0:
				h = gen.MutateBytes(r, h, src)
			case 1:
				if len(h) > 1 {
					h = h[:1+r.IntN(len(h)-1)]
				}
			case 2:
				h = []string{"cat <<EOF ", "cat <<EOF; ", "a <<-X | ", "<<'Q' "}[r.IntN(4)] + h
				if len(h) > 12 {
					h = h[:10+r.IntN(len(h)-10)]
				}
			}
			c.Prior = append(c.Prior, []byte(h))
		}
		c.Source += "+reused-parser"
	}
	return c
}

func threadCPU() time.Duration {
	var ru syscall.Rusage
	const rusageThread = 1
	if err := syscall.Getrusage(rusageThread, &ru); err != nil {
		return 0
	}
	return time.Duration(ru.Utime.Nano() + ru.Stime.Nano())
}

func familyInput(name string, n int) string {
	rep := strings.Repeat
	switch name {
	case "parens":
		d := n / 2
		if d > 40000 {
			d = 40000 // deeper nesting overflows the goroutine stack: recorded as a known finding, not timed here
		}
		return rep("(", d) + "a" + rep(")", d) + rep("; (a)", (n-2*d)/5)
	case "braces":
		d := n / 6
		if d > 40000 {
			d = 40000
		}
		return rep("{ ", d) + "a" + rep("; }", d)
	case "cmdsubst":
		d := n / 3
		if d > 30000 {
			d = 30000
		}
		return "echo " + rep("$(", d) + "a" + rep(")", d)
	case "backquotes":
		// depth 6 of nested backquotes needs 2^k-1 backslashes; repeat the group
		g := "`a \\`b \\\\\\`c\\\\\\` \\``"
		return "echo " + rep(g+" ", n/len(g))
	case "dquote-cmdsubst":
		d := n / 6
		if d > 20000 {
			d = 20000
		}
		return "echo " + rep("\"$(", d) + "a" + rep(")\"", d)
	case "param-default":
		d := n / 6
		if d > 30000 {
			d = 30000
		}
		return "echo " + rep("${a:-", d) + "x" + rep("}", d)
	case "arith-parens":
		d := n / 2
		if d > 40000 {
			d = 40000
		}
		return "echo $((" + rep("(", d) + "1" + rep(")", d) + "))"
	case "test-parens":
		d := n / 4
		if d > 40000 {
			d = 40000
		}
		return "[[ " + rep("( ", d) + "a" + rep(" )", d) + " ]]"
	case "heredocs":
		return rep("cat <<EOF\nline $x\nEOF\n", n/22)
	case "long-word":
		return "echo " + rep("a", n)
	case "escaped-newlines":
		return "echo a" + rep("\\\n", n/2) + "b"
	case "semicolons":
		return rep("a;", n/2)
	case "pipes":
		return "a" + rep("|a", n/2)
	case "case-items":
		return "case x in\n" + rep("a) b ;;\n", n/8) + "esac"
	case "array-elems":
		return "a=(" + rep("x ", n/2) + ")"
	case "if-nest":
		d := n / 16
		if d > 20000 {
			d = 20000
		}
		return rep("if a; then ", d) + "b" + rep("; fi", d)
	case "comments":
		return rep("# comment\na\n", n/12)
	}
	return ""
}

func (p *c06) runFamily(c *CrashCase) mon.Result {
	var res mon.Result
	if c.Family == "stack-parens-200k" {
		// only used by the pinned witness of C06-stack-overflow-deep-nesting
		src := strings.Repeat("(", 200000) + "a" + strings.Repeat(")", 200000)
		_, err := syntax.NewParser().Parse(strings.NewReader(src), "")
		res.Sample = fmt.Sprint(err)
		return res
	}
	runtime.LockOSThread()
	defer runtime.UnlockOSThread()
	sizes := []int{1 << 14, 1 << 15, 1 << 16, 1 << 17, 1 << 18}
	if p.env.Tier == "thorough" {
		sizes = append(sizes, 1<<19, 1<<20)
	}
	var times []time.Duration
	for _, n := range sizes {
		src := familyInput(c.Family, n)
		best := time.Duration(1 << 62)
		for rep := 0; rep < 2; rep++ {
			t0 := threadCPU()
			f, err := syntax.NewParser(syntax.KeepComments(true)).Parse(strings.NewReader(src), "")
			if err == nil {
				var buf bytes.Buffer
				syntax.NewPrinter().Print(&buf, f)
			} else if rep == 0 {
				res.Count("family_parse_errors", 1)
			}
			if d := threadCPU() - t0; d < best {
				best = d
			}
		}
		times = append(times, best)
		res.Evals++
		if best > 20*time.Second {
			res.Fail("hang", fmt.Sprintf("family %s size %d: parse+print took %s of thread CPU", c.Family, n, best))
			return res
		}
	}
	run := 0
	for i := 1; i < len(times); i++ {
		if times[i-1] > 0 && float64(times[i])/float64(times[i-1]) > 3.2 {
			run++
		} else {
			run = 0
		}
		if run >= 4 && times[i] >= 400*time.Millisecond {
			res.Fail("super-linear", fmt.Sprintf("family %s: CPU times over doublings %v", c.Family, times))
			return res
		}
	}
	res.Hash = mon.HashOf("family", c.Family)
	res.Nontriv = true
	res.Count("family:"+c.Family, 1)
	res.Sample = map[string]any{"family": c.Family, "sizes": sizes, "cpu_ms": msList(times)}
	return res
}

func msList(ts []time.Duration) []float64 {
	out := make([]float64, len(ts))
	for i, t := range ts {
		out[i] = float64(t.Microseconds()) / 1000
	}
	return out
}

func (p *c06) Run(payload any) mon.Result {
	c := payload.(*CrashCase)
	if c.Family != "" {
		return p.runFamily(c)
	}
	var res mon.Result
	runtime.LockOSThread()
	defer runtime.UnlockOSThread()
	opts := []syntax.ParserOption{syntax.Variant(langByName(c.Lang)), syntax.KeepComments(c.Keep)}
	if c.StopAt != "" {
		opts = append(opts, syntax.StopAt(c.StopAt))
	}
	if c.Recover > 0 {
		opts = append(opts, syntax.RecoverErrors(c.Recover))
	}
	parser := syntax.NewParser(opts...)
	for _, h := range c.Prior {
		parser.Parse(bytes.NewReader(h), "") // a panic here is the same violation
	}
	rd := bytes.NewReader(c.Src)
	var nodes []syntax.Node
	t0 := threadCPU()
	var perr error
	switch c.Entry {
	case "Parse":
		f, err := parser.Parse(rd, "")
		perr = err
		if err == nil {
			nodes = append(nodes, f)
		}
	case "StmtsSeq":
		k := 0
		for s, err := range parser.StmtsSeq(rd) {
			if err != nil {
				perr = err
				break
			}
			nodes = append(nodes, s)
			if k++; c.StopIt > 0 && k >= c.StopIt {
				break
			}
		}
	case "WordsSeq":
		k := 0
		for w, err := range parser.WordsSeq(rd) {
			if err != nil {
				perr = err
				break
			}
			nodes = append(nodes, w)
			if k++; c.StopIt > 0 && k >= c.StopIt {
				break
			}
		}
	case "InteractiveSeq":
		k := 0
		for ss, err := range parser.InteractiveSeq(rd) {
			if err != nil {
				perr = err
				break
			}
			for _, s := range ss {
				nodes = append(nodes, s)
			}
			_ = parser.Incomplete()
			if k++; c.StopIt > 0 && k >= c.StopIt {
				break
			}
		}
	case "Document":
		w, err := parser.Document(rd)
		perr = err
		if err == nil && w != nil {
			nodes = append(nodes, w)
		}
	case "Arithmetic":
		x, err := parser.Arithmetic(rd)
		perr = err
		if err == nil && x != nil {
			nodes = append(nodes, x)
		}
	}
	res.Evals = 1
	if perr != nil {
		res.Count("outcome:error", 1)
		_ = perr.Error()
		_ = syntax.IsIncomplete(perr)
	} else {
		res.Count("outcome:ok", 1)
	}
	for _, n := range nodes {
		for _, o := range []POpts{{}, {Minify: true}, {SingleLine: true, Indent: 2, BinaryNextLine: true}} {
			var buf bytes.Buffer
			_ = o.Printer().Print(&buf, n)
			res.Evals++
		}
		syntax.Walk(n, func(syntax.Node) bool { return true })
		for range syntax.Preorder(n) {
		}
		_ = typedjson.Encode(io.Discard, n)
		_ = syntax.DebugPrint(io.Discard, n)
		syntax.Simplify(n)
		var buf bytes.Buffer
		_ = syntax.NewPrinter().Print(&buf, n)
		res.Evals += 5
	}
	if d := threadCPU() - t0; d > 20*time.Second {
		res.Fail("hang", fmt.Sprintf("entry=%s lang=%s: %s of thread CPU on %d input bytes\nsrc=%s", c.Entry, c.Lang, d, len(c.Src), truncStr(c.SrcQ, 400)))
		return res
	}
	res.Hash = mon.HashOf(c.Src, c.Lang, c.Entry, c.Keep, c.StopAt, c.Recover, c.StopIt)
	res.Nontriv = len(c.Src) >= 2
	res.Count("entry:"+c.Entry, 1)
	res.Count("source:"+c.Source, 1)
	res.Count("lang:"+c.Lang, 1)
	if c.Recover > 0 {
		res.Count("recover_errors", 1)
		if perr == nil && len(nodes) > 0 {
			res.Count("recover_trees_printed", 1)
		}
	}
	if c.StopAt != "" {
		res.Count("stop_at", 1)
	}
	res.Count("nodes_returned", len(nodes))
	res.Sample = map[string]any{"src": truncStr(c.SrcQ, 160), "lang": c.Lang, "entry": c.Entry, "stop_at": c.StopAt, "recover": c.Recover, "trees": len(nodes)}
	return res
}

func (*c06) Shrink(payload any, still func(any) bool) any {
	c := *(payload.(*CrashCase))
	if c.Family != "" {
		return &c
	}
	src := c.Src
	for chunk := len(src) / 2; chunk >= 1; chunk /= 2 {
		for i := 0; i+chunk <= len(src); {
			cand := append(append([]byte{}, src[:i]...), src[i+chunk:]...)
			d := c
			d.Src = cand
			d.SrcQ = strconv.Quote(string(cand))
			if still(&d) {
				src = cand
			} else {
				i += chunk
			}
		}
	}
	c.Src = src
	c.SrcQ = strconv.Quote(string(src))
	return &c
}
