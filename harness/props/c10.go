package props

import (
	"bytes"
	"errors"
	"fmt"
	"math/rand/v2"
	"strconv"

	"mvdan.cc/sh/v3/syntax"
	"verif/mon"
)

// C10: parse errors are well-formed and incompleteness is reported.
type c10 struct {
	base
	gen6 c06
}

func init() { mon.Register(&c10{}) }

type ErrCase struct {
	Kind  string     `json:"kind"` // "errpos" | "prefix"
	Crash *CrashCase `json:"crash,omitempty"`
	Syn   *SynCase   `json:"syn,omitempty"`
}

func (*c10) ID() string { return "C10" }
func (*c10) Rule() string {
	return "clause 1 (every error points inside the input): the byte strings, entry points and parser options of C06's generator; the position of every ParseError/LangError returned must be valid with offset <= len(input) and line <= number of lines + 1. Clause 2 (incompleteness): parseable programs of every variant (corpus, grammar, structure mutants) cut at every line boundary; Parse of the prefix must succeed or fail with an error IsIncomplete accepts. Non-trivial: an error was returned (clause 1) or >= 2 prefixes were tried (clause 2); distinct: hash of the case."
}
func (*c10) NumCases(tier string) int               { return tierN(tier, 12000, 250000) }
func (*c10) MinNontrivial(tier string) int          { return tierN(tier, 4000, 80000) }
func (*c10) New() any                               { return &ErrCase{} }
func (*c10) Assumptions() []string {
	return []string{"a cut at a line boundary keeps the newline; cuts are taken in the raw bytes, so a boundary inside a quoted string or here-document is a legitimate cut", "errors that are neither ParseError nor LangError (reader errors) do not occur with in-memory readers"}
}

func (p *c10) Init(env *mon.Env) error {
	if err := p.base.Init(env); err != nil {
		return err
	}
	return p.gen6.Init(env)
}

func (p *c10) Gen(i int, r *rand.Rand) any {
	if i%2 == 0 {
		c := p.gen6.Gen(len(families)+i, r).(*CrashCase)
		return &ErrCase{Kind: "errpos", Crash: c}
	}
	c := p.synInputX(r, synMustParse, false, false, false)
	if c == nil {
		return nil
	}
	return &ErrCase{Kind: "prefix", Syn: c}
}

func errPos(err error) (syntax.Pos, bool) {
	var pe syntax.ParseError
	if errors.As(err, &pe) {
		return pe.Pos, true
	}
	var le syntax.LangError
	if errors.As(err, &le) {
		return le.Pos, true
	}
	return syntax.Pos{}, false
}

func (p *c10) Run(payload any) mon.Result {
	ec := payload.(*ErrCase)
	var res mon.Result
	if ec.Kind == "errpos" {
		c := ec.Crash
		opts := []syntax.ParserOption{syntax.Variant(langByName(c.Lang)), syntax.KeepComments(c.Keep)}
		if c.StopAt != "" {
			opts = append(opts, syntax.StopAt(c.StopAt))
		}
		if c.Recover > 0 {
			opts = append(opts, syntax.RecoverErrors(c.Recover))
		}
		parser := syntax.NewParser(opts...)
		rd := bytes.NewReader(c.Src)
		var errs []error
		switch c.Entry {
		case "Parse":
			_, err := parser.Parse(rd, "")
			errs = append(errs, err)
		case "StmtsSeq":
			for _, err := range parser.StmtsSeq(rd) {
				errs = append(errs, err)
			}
		case "WordsSeq":
			for _, err := range parser.WordsSeq(rd) {
				errs = append(errs, err)
			}
		case "InteractiveSeq":
			for _, err := range parser.InteractiveSeq(rd) {
				errs = append(errs, err)
			}
		case "Document":
			_, err := parser.Document(rd)
			errs = append(errs, err)
		case "Arithmetic":
			_, err := parser.Arithmetic(rd)
			errs = append(errs, err)
		}
		lines := 1 + bytes.Count(c.Src, []byte("\n"))
		got := 0
		for _, err := range errs {
			if err == nil {
				continue
			}
			got++
			pos, ok := errPos(err)
			if !ok {
				res.Fail("error-without-position", fmt.Sprintf("entry=%s lang=%s src=%s\nerror %T %v carries no position", c.Entry, c.Lang, c.SrcQ, err, err))
				return res
			}
			res.Count("errors_checked", 1)
			if !pos.IsValid() || pos.IsRecovered() {
				res.Fail("error-position-invalid", fmt.Sprintf("entry=%s lang=%s recover=%d stopAt=%q src=%s\nerror %q has position %v (valid=%v recovered=%v)", c.Entry, c.Lang, c.Recover, c.StopAt, c.SrcQ, err, pos, pos.IsValid(), pos.IsRecovered()))
				return res
			}
			if int(pos.Offset()) > len(c.Src) || int(pos.Line()) > lines+1 || pos.Line() < 1 || pos.Col() < 1 {
				res.Fail("error-position-outside-input", fmt.Sprintf("entry=%s lang=%s recover=%d stopAt=%q src=%s\nerror %q: offset %d (input has %d bytes), line %d (input has %d lines)", c.Entry, c.Lang, c.Recover, c.StopAt, c.SrcQ, err, pos.Offset(), len(c.Src), pos.Line(), lines))
				return res
			}
			if syntax.IsIncomplete(err) {
				res.Count("incomplete_errors", 1)
			}
		}
		res.Hash = mon.HashOf("e", c.Src, c.Lang, c.Entry, c.Keep, c.StopAt, c.Recover)
		res.Nontriv = got > 0
		res.Count("entry:"+c.Entry, 1)
		res.Sample = map[string]any{"kind": "errpos", "src": truncStr(c.SrcQ, 120), "entry": c.Entry, "errors": got}
		return res
	}
	c := ec.Syn
	lang := c.lang()
	if _, err := parseAs(c.Src, lang, true); err != nil {
		return mon.Result{Verdict: mon.OutOfDomain, Reason: "does-not-parse"}
	}
	cuts := 0
	res.Evals = 0
	for i, b := range c.Src {
		if b != '\n' || i+1 >= len(c.Src) {
			continue
		}
		prefix := c.Src[:i+1]
		cuts++
		res.Evals++
		_, err := parseAs(prefix, lang, true)
		if err == nil {
			res.Count("prefix_parses", 1)
			continue
		}
		if !syntax.IsIncomplete(err) {
			if p.knownPrefix(prefix, err) {
				res.Count("known:"+res.Reason, 1)
				continue
			}
			res.Fail("prefix-error-not-incomplete", fmt.Sprintf("lang=%s src=%s\nprefix %s fails with %q, which IsIncomplete rejects", c.Lang, c.SrcQ, strconv.Quote(string(prefix)), err))
			return res
		}
		res.Count("prefix_incomplete", 1)
		if pos, ok := errPos(err); ok && int(pos.Offset()) > len(prefix) {
			res.Fail("error-position-outside-input", fmt.Sprintf("lang=%s prefix=%q: error %q at offset %d > %d", c.Lang, prefix, err, pos.Offset(), len(prefix)))
			return res
		}
	}
	res.Hash = mon.HashOf("p", c.Src, c.Lang)
	res.Nontriv = cuts >= 2
	res.Count("lang:"+c.Lang, 1)
	res.Count("cuts", cuts)
	res.Sample = map[string]any{"kind": "prefix", "src": truncStr(c.SrcQ, 160), "lang": c.Lang, "cuts": cuts}
	return res
}

func (p *c10) knownPrefix(prefix []byte, err error) bool { return false }
