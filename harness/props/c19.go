package props

import (
	"fmt"
	"math/rand/v2"
	"os"
	"path/filepath"
	"strings"
	"time"

	"verif/mon"
)

// C19: pathname expansion matches bash.
type c19 struct{ base }

func init() { mon.Register(&c19{}) }

func (*c19) ID() string { return "C19" }
func (*c19) Rule() string {
	return "a generated directory tree (2-4 levels; files, directories, dot files and dot directories, names that are prefixes of each other followed by bytes that sort before '/', upper/lower-case twins, names containing * ? [ ] space and backslash-free metacharacters, symlinks to files, to directories and dangling) is created identically for bash 5.2 and for interp; 40 glob words per tree (relative, ./-prefixed, absolute through $PWD, with * ? [..] [!..] ranges and classes, ** alone and between elements, trailing slash, leading-dot patterns, quoted and backslash-escaped parts, extglob groups, literal elements between wildcard ones) are expanded by printf '<%s>' WORD under a random subset of dotglob, nullglob, globstar, nocaseglob (extglob always on, as bash needs it at parse time) and sometimes noglob. Oracle: identical output (order included) and status; differences are confirmed alone in fresh processes and trees. Non-trivial: the batch ran; distinct: hash of the batch."
}
func (*c19) NumCases(tier string) int      { return tierN(tier, 400, 6000) }
func (*c19) MinNontrivial(tier string) int { return tierN(tier, 300, 4500) }
func (*c19) New() any                      { return &SnipBatch{} }
func (*c19) CaseTimeout() time.Duration    { return 300 * time.Second }
func (*c19) Assumptions() []string {
	return []string{"bash 5.2.15 with LC_ALL=C.UTF-8 (byte order collation) is ground truth", "extglob is on throughout: bash needs it when the line is parsed", "three or more consecutive stars under globstar are not generated: bash 5.2 prints strings there that are not paths of the tree ('***/a' gave 'ab conf.d/a')"}
}

var c19Carves = map[string][][]string{
	"C19-extglob-negation-next-to-wildcards": {{"extglob-negation-mixed"}},
	"C19-globstar-descends-symlinked-directories": {{"opt:globstar", "globstar-element", "tree:symlink-to-dir"}},
	"C19-globstar-next-to-other-wildcard-elements": {{"opt:globstar", "globstar-after-wildcard-element"}},
	"C19-literal-element-naming-a-dangling-symlink": {{"tree:dangling-link", "literal-element"}},
	"C19-dotdot-after-a-symlinked-directory":        {{"tree:symlink-to-dir", "dotdot-element"}},
	"C19-bracket-with-slash-is-not-a-pattern":        {{"bracket-with-slash"}},
	"C19-character-class-under-nocaseglob":           {{"opt:nocaseglob", "bracket-class"}},
}

var c19Names = []string{"a", "b", "ab", "abc", "a.b", "a-b", "a+b", "a b", "A", "B", "Ab", "conf", "conf.d", "x", "y", "z1", "z2", "z10", ".h", ".hd", "..x", "a*b", "a?b", "[x]", "a[1]", "file.txt", "file.sh", "Makefile", "_u", "-dash", "~t", "#h", "d", "dd", "sub"}

func c19Tree(r *rand.Rand) string {
	var sb strings.Builder
	var dirs []string
	dirs = append(dirs, "")
	var files []string
	n := 6 + r.IntN(14)
	dirLinks := r.IntN(3) == 0
	used := map[string]bool{}
	for i := 0; i < n; i++ {
		parent := dirs[r.IntN(len(dirs))]
		if strings.Count(parent, "/") >= 3 {
			parent = ""
		}
		name := c19Names[r.IntN(len(c19Names))]
		p := parent + name
		if used[p] {
			continue
		}
		used[p] = true
		switch r.IntN(10) {
		case 0, 1, 2, 3:
			sb.WriteString("d " + p + "\n")
			dirs = append(dirs, p+"/")
		case 4:
			if len(files) > 0 {
				sb.WriteString("l " + p + "\t" + files[r.IntN(len(files))] + "\n")
			}
		case 5:
			if len(dirs) > 1 && dirLinks {
				sb.WriteString("L " + p + "\t" + strings.TrimSuffix(dirs[1+r.IntN(len(dirs)-1)], "/") + "\n")
			}
		case 6:
			if r.IntN(3) == 0 {
				sb.WriteString("l " + p + "\tnowhere\n")
			} else {
				sb.WriteString("f " + p + "\n")
				files = append(files, p)
			}
		default:
			sb.WriteString("f " + p + "\n")
			files = append(files, p)
		}
	}
	return sb.String()
}

// c19MakeTree materialises the description under dir/t. Link targets are given
// relative to the tree root and rewritten relative to the link.
func c19MakeTree(dir, desc string) error {
	root := filepath.Join(dir, "t")
	if err := os.MkdirAll(root, 0o755); err != nil {
		return err
	}
	for _, l := range strings.Split(desc, "\n") {
		if len(l) < 3 {
			continue
		}
		kind, rest := l[0], l[2:]
		switch kind {
		case 'd':
			os.MkdirAll(filepath.Join(root, rest), 0o755)
		case 'f':
			p := filepath.Join(root, rest)
			os.MkdirAll(filepath.Dir(p), 0o755)
			if fi, err := os.Lstat(p); err == nil && fi.IsDir() {
				continue
			}
			os.WriteFile(p, nil, 0o644)
		case 'l', 'L':
			j := strings.LastIndex(rest, "\t")
			if j < 0 {
				continue
			}
			p, target := filepath.Join(root, rest[:j]), rest[j+1:]
			os.MkdirAll(filepath.Dir(p), 0o755)
			if _, err := os.Lstat(p); err == nil {
				continue
			}
			rel, err := filepath.Rel(filepath.Dir(p), filepath.Join(root, target))
			if err != nil {
				continue
			}
			os.Symlink(rel, p)
		}
	}
	return nil
}

func c19Word(r *rand.Rand, tags map[string]bool) string {
	elem := func() string {
		var sb strings.Builder
		for n := 1 + r.IntN(3); n > 0; n-- {
			switch r.IntN(16) {
			case 0, 1, 2:
				sb.WriteString("*")
			case 3:
				sb.WriteString("?")
			case 4:
				sb.WriteString([]string{"[ab]", "[a-c]", "[!a]", "[^.]", "[xyz]", "[[:upper:]]", "[[:alpha:]]", "[!a-y]", "[.a]", "[a/b]", "[]x]", "[a-]"}[r.IntN(12)])
				tags["bracket"] = true
				if strings.HasSuffix(sb.String(), "[a/b]") {
					tags["bracket-with-slash"] = true
				}
				if strings.HasSuffix(sb.String(), ":]]") {
					tags["bracket-class"] = true
				}
			case 5, 6, 7, 8:
				sb.WriteString([]string{"a", "b", "c", "conf", "x", "z", "d", "A", ".", "file", "sub", "e"}[r.IntN(12)])
			case 9:
				sb.WriteString([]string{`"*"`, `'?'`, `\*`, `\[`, `"a b"`, `\?`, `"[x]"`, `a\ b`}[r.IntN(8)])
				tags["quoted-part"] = true
			case 10:
				sb.WriteString([]string{"@(a|b)", "!(a)", "+(a|b)", "?(a)", "*(z|1|2)", "@(conf|conf.d)", "!(*.d)", "@(a*|b?)"}[r.IntN(8)])
				tags["extglob"] = true
			case 11:
				sb.WriteString(".")
			case 12:
				sb.WriteString([]string{".*", ".[!.]*", ".h*", "..?*"}[r.IntN(4)])
				tags["leading-dot-pattern"] = true
			default:
				sb.WriteString("*")
			}
		}
		return sb.String()
	}
	var parts []string
	switch r.IntN(8) {
	case 0:
		parts = append(parts, ".")
		tags["dot-slash-prefix"] = true
	case 1:
		parts = append(parts, `"$PWD"`)
		tags["absolute"] = true
	}
	for n := 1 + r.IntN(3); n > 0; n-- {
		switch r.IntN(8) {
		case 0:
			parts = append(parts, "**")
			tags["globstar-element"] = true
		case 1:
			lits := []string{"a", "d", "sub", "conf", "b", ".."}
			if len(parts) == 0 || parts[len(parts)-1] == "." || parts[len(parts)-1] == `"$PWD"` || parts[len(parts)-1] == ".." {
				lits = lits[:5] // ".." only below a directory of the tree, never out of it
			}
			parts = append(parts, lits[r.IntN(len(lits))])
			tags["literal-element"] = true
		default:
			parts = append(parts, elem())
		}
	}
	depth := 0
	for i, e := range parts {
		// never leave the tree
		switch e {
		case ".", `"$PWD"`, "**":
		case "..":
			if depth == 0 {
				parts[i] = "d"
				depth++
			} else {
				depth--
			}
		default:
			depth++
		}
	}
	for i, e := range parts {
		if strings.Contains(e, "!(") {
			// interp documents !(..) only with a fixed prefix and suffix
			j, k := strings.Index(e, "!("), strings.Index(e, ")")
			rest := e[:j] + e[k+1:]
			if strings.ContainsAny(rest, "*?[(") {
				tags["extglob-negation-mixed"] = true
			}
		}
		if e == "**" {
			tags["globstar-element"] = true
		}
		if e != "." && e != ".." && e != `"$PWD"` && !strings.ContainsAny(strings.NewReplacer(`\*`, "", `\?`, "", `\[`, "", `"*"`, "", `'?'`, "", `"[x]"`, "").Replace(e), "*?[(") {
			tags["literal-element"] = true
		}
		if e == ".." {
			tags["dotdot-element"] = true
		}
		if e == "**" && i > 0 {
			for _, prev := range parts[:i] {
				if strings.ContainsAny(prev, "*?[(") {
					tags["globstar-after-wildcard-element"] = true
				}
			}
		}
	}
	w := strings.Join(parts, "/")
	if r.IntN(6) == 0 {
		w += "/"
		tags["trailing-slash"] = true
	}
	return w
}

func (p *c19) Gen(i int, r *rand.Rand) any {
	b := &SnipBatch{Setup: c19Tree(r)}
	b.Prelude = "shopt -s extglob\ncd t || exit 9\n"
	dirLinks := strings.Contains(b.Setup, "\nL ") || strings.HasPrefix(b.Setup, "L ")
	for k := 0; k < 40; k++ {
		tags := map[string]bool{}
		if dirLinks {
			tags["tree:symlink-to-dir"] = true
		}
		if strings.Contains(b.Setup, "\tnowhere\n") {
			tags["tree:dangling-link"] = true
		}
		var on []string
		for _, o := range []string{"dotglob", "nullglob", "globstar", "nocaseglob"} {
			if r.IntN(3) == 0 {
				on = append(on, o)
				tags["opt:"+o] = true
			}
		}
		set := "shopt -u dotglob nullglob globstar nocaseglob; set +f"
		if len(on) > 0 {
			set += "; shopt -s " + strings.Join(on, " ")
		}
		if r.IntN(12) == 0 {
			set += "; set -f"
			tags["opt:noglob"] = true
		}
		nw := 1 + r.IntN(2)
		var ws []string
		for ; nw > 0; nw-- {
			ws = append(ws, c19Word(r, tags))
		}
		if carvedBy(p.env.Findings, c19Carves, tags) {
			continue
		}
		if tags["opt:globstar"] && strings.Contains(strings.Join(ws, " "), "***") {
			continue // bash 5.2 itself prints strings that are no path of the tree for ***/x under globstar
		}
		var tl []string
		for t := range tags {
			tl = append(tl, t)
		}
		b.Snips = append(b.Snips, Snip{Src: set + "\nprintf '<%s>' " + strings.Join(ws, " ") + "\necho", Tags: tl})
	}
	return b
}

func (p *c19) Run(payload any) mon.Result {
	b := payload.(*SnipBatch)
	res := p.diffSnips(b, nil, func(dir string) error { return c19MakeTree(dir, b.Setup) })
	if res.Verdict == "" || res.Verdict == mon.Held {
		res.Hash = mon.HashOf(b)
		res.Nontriv = res.Evals > 0
		res.Sample = map[string]any{"tree": clip(strings.ReplaceAll(b.Setup, "\n", "; "), 160), "first": clip(b.Snips[0].Src, 160)}
	} else if res.Verdict == mon.Violated {
		res.Detail = "tree (d dir, f file, l link-to-file, L link-to-dir):\n" + b.Setup + res.Detail
	}
	return res
}

var _ = fmt.Sprint
var _ = time.Second
