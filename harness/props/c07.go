package props

import (
	"bytes"
	"fmt"
	"io"
	"math/rand/v2"
	"strconv"
	"strings"

	"mvdan.cc/sh/v3/syntax"
	"verif/mon"
	"verif/oracle"
)

// C07: parsing does not depend on how input bytes arrive.
type c07 struct{ base }

func init() { mon.Register(&c07{}) }

func (*c07) ID() string { return "C07" }
func (*c07) Rule() string {
	return "inputs from the corpus, grammar generator (all variants) and byte-level mutants, parseable or not, optionally prefixed with comment padding that aligns a random byte of the input with the lexer's 1 KiB buffer boundary; each is parsed from a whole-input reader and from: a 1-byte reader, every single split point (sampled above 96 bytes), random chunkings, readers returning (0,nil) between chunks and readers returning the last chunk together with io.EOF; results must have the same error string or position-exact equal trees. Non-trivial: input longer than 3 bytes; distinct: hash of (bytes, variant)."
}
func (*c07) NumCases(tier string) int               { return tierN(tier, 2500, 60000) }
func (*c07) MinNontrivial(tier string) int          { return tierN(tier, 1200, 25000) }
func (*c07) New() any                               { return &SynCase{} }
func (*c07) Shrink(p any, still func(any) bool) any { return shrinkSyn(p, still) }
func (*c07) Assumptions() []string {
	return []string{"the reader schedules tried are those listed in the rule; an io.Reader may legally behave in other ways (errors mid-stream are not exercised)"}
}

func (p *c07) Gen(i int, r *rand.Rand) any {
	mode := synAny
	c := p.synInputX(r, mode, true, false, true)
	if c == nil {
		return nil
	}
	if r.IntN(3) == 0 && len(c.Src) > 0 {
		// align byte k of the input with the 1024-byte buffer boundary (+-2)
		k := r.IntN(len(c.Src))
		m := 1 + r.IntN(2)
		target := 1024*m + r.IntN(5) - 2
		padLen := target - k
		if padLen >= 2 {
			pad := "#" + strings.Repeat("p", padLen-2) + "\n"
			c.Src = append([]byte(pad), c.Src...)
			c.Source += "+aligned"
		}
	}
	c.SrcQ = strconv.Quote(string(c.Src))
	c.Extra = int(r.Uint32() >> 1)
	return c
}

// chunkReader hands out the input in the given chunk sizes.
type chunkReader struct {
	data    []byte
	sizes   []int // consumed in order; then whatever the caller asks for
	zeros   bool  // return (0, nil) before every chunk
	zeroed  bool
	withEOF bool // return the final chunk together with io.EOF
}

func (c *chunkReader) Read(p []byte) (int, error) {
	if len(c.data) == 0 {
		return 0, io.EOF
	}
	if c.zeros && !c.zeroed {
		c.zeroed = true
		return 0, nil
	}
	c.zeroed = false
	n := len(p)
	if len(c.sizes) > 0 {
		if c.sizes[0] < n {
			n = c.sizes[0]
		}
		c.sizes = c.sizes[1:]
	}
	if n > len(c.data) {
		n = len(c.data)
	}
	if n == 0 {
		n = 1
	}
	copy(p, c.data[:n])
	c.data = c.data[n:]
	if len(c.data) == 0 && c.withEOF {
		return n, io.EOF
	}
	return n, nil
}

func parseOutcome(rd io.Reader, lang syntax.LangVariant, keep bool) string {
	f, err := syntax.NewParser(syntax.Variant(lang), syntax.KeepComments(keep)).Parse(rd, "")
	if err != nil {
		return "ERR " + err.Error()
	}
	return oracle.Canon(f, oracle.CanonOpts{Pos: true, Comments: true})
}

func (p *c07) Run(payload any) mon.Result {
	c := payload.(*SynCase)
	lang := c.lang()
	var res mon.Result
	keep := c.Extra%2 == 0
	r := rand.New(rand.NewPCG(uint64(c.Extra), 7))
	want := parseOutcome(bytes.NewReader(c.Src), lang, keep)
	res.Hash = mon.HashOf(c.Src, c.Lang)
	res.Nontriv = len(c.Src) > 3
	res.Count("source:"+c.Source, 1)
	res.Count("lang:"+c.Lang, 1)
	if strings.HasPrefix(want, "ERR ") {
		res.Count("outcome:error", 1)
	} else {
		res.Count("outcome:tree", 1)
	}
	res.Evals = 0
	try := func(name string, cr *chunkReader) bool {
		res.Evals++
		res.Count("schedule:"+name, 1)
		got := parseOutcome(cr, lang, keep)
		if got != want {
			if false {
				res.Verdict = mon.Known
				res.Reason = "C07-zsh-lookahead-short-read"
				res.Count("known:C07-zsh-lookahead-short-read", 1)
				return true
			}
			d := ""
			if strings.HasPrefix(want, "ERR ") || strings.HasPrefix(got, "ERR ") {
				d = fmt.Sprintf("whole: %s\n%s: %s", truncStr(want, 300), name, truncStr(got, 300))
			} else {
				d = oracle.FirstDiff(want, got)
			}
			res.Fail("reader-dependent", fmt.Sprintf("lang=%s keepComments=%v schedule=%s\nsrc=%s\n%s", c.Lang, keep, name, c.SrcQ, d))
			return false
		}
		return true
	}
	n := len(c.Src)
	ones := make([]int, n)
	for i := range ones {
		ones[i] = 1
	}
	if !try("one-byte", &chunkReader{data: c.Src, sizes: ones}) {
		return res
	}
	if !try("one-byte+zero-reads", &chunkReader{data: c.Src, sizes: append([]int{}, ones...), zeros: true}) {
		return res
	}
	if !try("whole+eof", &chunkReader{data: c.Src, withEOF: true}) {
		return res
	}
	// single split points
	var splits []int
	if n <= 96 {
		for i := 1; i < n; i++ {
			splits = append(splits, i)
		}
	} else {
		for k := 0; k < 64; k++ {
			splits = append(splits, 1+r.IntN(n-1))
		}
		// around the buffer boundaries
		for _, b := range []int{1022, 1023, 1024, 1025, 2047, 2048, 2049} {
			if b < n {
				splits = append(splits, b)
			}
		}
	}
	for _, s := range splits {
		if !try("split", &chunkReader{data: c.Src, sizes: []int{s}, withEOF: s%2 == 0}) {
			res.Detail += fmt.Sprintf("\nsplit at %d", s)
			return res
		}
	}
	for k := 0; k < 8; k++ {
		var sizes []int
		for left := n; left > 0; {
			s := 1 + r.IntN(7)
			if r.IntN(4) == 0 {
				s = 1 + r.IntN(600)
			}
			sizes = append(sizes, s)
			left -= s
		}
		if !try("random-chunks", &chunkReader{data: c.Src, sizes: sizes, zeros: k%3 == 0, withEOF: k%2 == 0}) {
			res.Detail += fmt.Sprintf("\nchunks %v", sizes)
			return res
		}
	}
	res.Sample = map[string]any{"src": truncStr(c.SrcQ, 200), "lang": c.Lang, "len": n, "outcome": truncStr(want, 60)}
	return res
}

func truncStr(s string, n int) string {
	if len(s) > n {
		return s[:n] + "…"
	}
	return s
}

// knownZsh is the difference predicate of finding C07-zsh-lookahead-short-read.

