package props

import (
	"context"
	"fmt"
	"math/rand/v2"
	"os"
	"strings"
	"time"

	"mvdan.cc/sh/v3/interp"
	"mvdan.cc/sh/v3/syntax"
	"verif/gen"
	"verif/mon"
	"verif/oracle"
)

// C30: Runner reuse is equivalent to a fresh runner.
type c30 struct {
	base
	repoProgs []gen.InterpCase
}

func init() { mon.Register(&c30{}) }

func (*c30) ID() string { return "C30" }
func (*c30) Rule() string {
	return "(a) histories of 1..5 programs (programs that exit, fail, set -e/-u/-f/-o pipefail, shopt -s, define traps, functions, aliases, arrays, readonly/exported variables, cd into subdirectories, change $@, redirect with exec, leave finished background jobs) run on one Runner, then Reset, then a program P; the same P on a new Runner with the same options in a directory holding a copy of the files the history left behind. Oracle: stdout of P, the error value, Runner.Vars, the printed Runner.Funcs, Dir and Params are equal. (b) a program without an EXIT trap run as a whole file, versus its top-level statements run one Run call at a time until Exited() reports true. Oracle: same stdout, same Vars and same final status. Scratch directory names are normalised. Non-trivial: the history has a state-changing program or the file has >= 3 statements; distinct: hash of the case."
}
func (*c30) NumCases(tier string) int      { return tierN(tier, 1500, 30000) }
func (*c30) MinNontrivial(tier string) int { return tierN(tier, 700, 12000) }
func (*c30) New() any                      { return &ProgCase{} }
func (*c30) CaseTimeout() time.Duration    { return 180 * time.Second }
func (*c30) Assumptions() []string {
	return []string{"files are external state that Reset does not undo: the fresh Runner works in a copy of the directory the history left behind", "external commands are limited to the allowlisted tools"}
}

func (p *c30) Init(env *mon.Env) error {
	if err := p.base.Init(env); err != nil {
		return err
	}
	p.repoProgs = p.interpCorpus()
	return nil
}

var c30History = []string{
	"set -e\nfalse\necho not-reached\n",
	"set -u\necho $undefined_var\n",
	"set -f; set -o pipefail; shopt -s nullglob globstar expand_aliases\n",
	"trap 'echo exit-trap' EXIT\ntrap 'echo err-trap' ERR\nfalse\n",
	"f() { echo old-f; }\ng() { return 3; }\nalias ll='echo aliased'\nshopt -s expand_aliases\n",
	"arr=(1 2 3)\ndeclare -A m=([k]=v)\nreadonly ro=1\nexport ex=2\nx=leftover\nIFS=:\nOPTIND=5\n",
	"mkdir -p sub/deeper\ncd sub/deeper\npwd >/dev/null\n",
	"mkdir -p d1 d2\npushd d1 >/dev/null\npushd ../d2 >/dev/null\n",
	"set -- a b c\nshift\n",
	"exec >out.txt\necho redirected\n",
	"exec 3>fd3.txt\necho x >&3\n",
	"{ echo bg > bgfile; } &\nwait\n",
	"exit 7\n",
	"getopts ab: opt -a -b val\necho $opt $OPTIND\n",
	"for i in 1 2 3; do if [ $i = 2 ]; then break; fi; done\nf() { return 5; }\nf\n",
	"read -r line <<< 'some input'\nmapfile -t lines <<< $'a\\nb'\n",
	"cd /nonexistent-dir-for-verif\nunset HOME\nPATH=\n",
	"declare -n ref=x\nref=via-ref\nlocal_fn() { local l=1; declare -g gl=2; }\nlocal_fn\n",
}

func (p *c30) Gen(i int, r *rand.Rand) any {
	prog := func() string {
		switch k := r.IntN(10); {
		case k < 2 && len(p.repoProgs) > 0:
			return p.repoProgs[r.IntN(len(p.repoProgs))].In
		default:
			s, _ := gen.RunProgram(r, gen.RunOpts{NoExitTrap: true, Avoid: map[string]bool{"background": false}})
			return s
		}
	}
	if r.IntN(3) == 0 {
		// (b) statement by statement
		return &ProgCase{Src: prog(), Source: "stmtwise"}
	}
	c := &ProgCase{Src: prog(), Source: "reset"}
	for k := 1 + r.IntN(5); k > 0; k-- {
		if r.IntN(3) > 0 {
			c.Hist = append(c.Hist, c30History[r.IntN(len(c30History))])
		} else {
			c.Hist = append(c.Hist, prog())
		}
	}
	return c
}

type runnerObs struct {
	Stdout, Err, Vars, Funcs, Dir, Params string
}

func observe(r *interp.Runner, out *lockedBuf, err error, dirs ...string) runnerObs {
	norm := func(s string) string {
		for _, d := range dirs {
			s = strings.ReplaceAll(s, d, "<SCRATCH>")
		}
		return s
	}
	return runnerObs{Stdout: norm(out.String()), Err: norm(errString(err)), Vars: varsDump(r.Vars, dirs...), Funcs: funcsDump(r.Funcs), Dir: norm(r.Dir), Params: fmt.Sprintf("%q", r.Params)}
}

func (a runnerObs) diff(b runnerObs) string {
	switch {
	case a.Stdout != b.Stdout:
		return fmt.Sprintf("stdout differs:\n   A: %q\n   B: %q", clip(a.Stdout, 400), clip(b.Stdout, 400))
	case a.Err != b.Err:
		return fmt.Sprintf("error value differs: A=%s B=%s", a.Err, b.Err)
	case a.Vars != b.Vars:
		return "Vars differ, " + firstDiffLine(a.Vars, b.Vars)
	case a.Funcs != b.Funcs:
		return "Funcs differ, " + firstDiffLine(a.Funcs, b.Funcs)
	case a.Dir != b.Dir:
		return fmt.Sprintf("Dir differs: A=%s B=%s", a.Dir, b.Dir)
	case a.Params != b.Params:
		return fmt.Sprintf("Params differ: A=%s B=%s", a.Params, b.Params)
	}
	return ""
}

func (p *c30) Run(payload any) mon.Result {
	c := payload.(*ProgCase)
	var res mon.Result
	f, err := oracle.ParseBash([]byte(c.Src))
	if err != nil {
		return mon.Result{Verdict: mon.OutOfDomain, Reason: "does-not-parse"}
	}
	dirA, err := oracle.ScratchDir(p.env.Build, "c30a")
	if err != nil {
		return mon.Result{Verdict: mon.Inconclusive, Reason: "scratch-dir", Detail: err.Error()}
	}
	defer os.RemoveAll(dirA)
	dirB, err := oracle.ScratchDir(p.env.Build, "c30b")
	if err != nil {
		return mon.Result{Verdict: mon.Inconclusive, Reason: "scratch-dir", Detail: err.Error()}
	}
	defer os.RemoveAll(dirB)
	params := []string{"p1", "p 2"}
	res.Count("mode:"+c.Source, 1)
	res.Hash = mon.HashOf(c)
	const to = 10 * time.Second

	if c.Source == "stmtwise" {
		if strings.Contains(c.Src, "EXIT") {
			return mon.Result{Verdict: mon.OutOfDomain, Reason: "has-exit-trap"}
		}
		if len(f.Stmts) == 0 {
			return mon.Result{Verdict: mon.OutOfDomain, Reason: "no-statements"}
		}
		outA, outB := &lockedBuf{}, &lockedBuf{}
		ra, e1 := newStateRunner(p.env.Build, dirA, outA, params)
		rb, e2 := newStateRunner(p.env.Build, dirB, outB, params)
		if e1 != nil || e2 != nil {
			return mon.Result{Verdict: mon.Inconclusive, Reason: "new-failed"}
		}
		errA, pan, ok := runNode(ra, f, to)
		if pan != nil || !ok {
			return mon.Result{Verdict: mon.Inconclusive, Reason: "whole-file-run-timeout-or-panic", Detail: clip(c.Src, 300)}
		}
		var errB error
		steps := 0
		ctxB, cancelB := context.WithTimeout(context.Background(), 3*to)
		defer cancelB()
		for _, st := range f.Stmts {
			var pan any
			errB, pan, ok = runNodeCtx(ctxB, rb, st, to)
			steps++
			if pan != nil || !ok {
				return mon.Result{Verdict: mon.Inconclusive, Reason: "statement-run-timeout-or-panic", Detail: clip(c.Src, 300)}
			}
			if rb.Exited() {
				break
			}
		}
		res.Evals = 1 + steps
		a, b := observe(ra, outA, errA, dirA, dirB), observe(rb, outB, errB, dirA, dirB)
		// the statement-wise run has no Funcs/Dir/Params claims in the property beyond output, variables, status
		a.Funcs, b.Funcs, a.Dir, b.Dir, a.Params, b.Params = "", "", "", "", "", ""
		if d := a.diff(b); d != "" {
			res.Fail("stmtwise-differs", fmt.Sprintf("program (%d top-level statements, %d run):\n%s\nA = whole file, B = one Run per statement\n%s", len(f.Stmts), steps, c.Src, d))
			return res
		}
		res.Nontriv = len(f.Stmts) >= 3
		res.Sample = map[string]any{"mode": "stmtwise", "stmts": len(f.Stmts), "src": clip(c.Src, 200)}
		return res
	}

	// (a) history, Reset, P  vs  fresh P
	outA := &lockedBuf{}
	ra, e1 := newStateRunner(p.env.Build, dirA, outA, params)
	if e1 != nil {
		return mon.Result{Verdict: mon.Inconclusive, Reason: "new-failed"}
	}
	for _, h := range c.Hist {
		hf, err := oracle.ParseBash([]byte(h))
		if err != nil {
			continue
		}
		_, pan, ok := runNode(ra, hf, to)
		if pan != nil || !ok {
			return mon.Result{Verdict: mon.Inconclusive, Reason: "history-run-timeout-or-panic", Detail: clip(h, 300)}
		}
		res.Evals++
	}
	ra.Reset()
	if err := copyDir(dirA, dirB); err != nil {
		return mon.Result{Verdict: mon.Inconclusive, Reason: "copy-dir", Detail: err.Error()}
	}
	outA.Reset()
	errA, pan, ok := runNode(ra, f, to)
	if pan != nil || !ok {
		return mon.Result{Verdict: mon.Inconclusive, Reason: "reused-run-timeout-or-panic", Detail: clip(c.Src, 300)}
	}
	outB := &lockedBuf{}
	rb, e2 := newStateRunner(p.env.Build, dirB, outB, params)
	if e2 != nil {
		return mon.Result{Verdict: mon.Inconclusive, Reason: "new-failed"}
	}
	errB, pan, ok := runNode(rb, f, to)
	if pan != nil || !ok {
		return mon.Result{Verdict: mon.Inconclusive, Reason: "fresh-run-timeout-or-panic", Detail: clip(c.Src, 300)}
	}
	res.Evals += 2
	a, b := observe(ra, outA, errA, dirA, dirB), observe(rb, outB, errB, dirA, dirB)
	if d := a.diff(b); d != "" {
		res.Fail("reset-differs-from-fresh", fmt.Sprintf("history:\n%s\nprogram P:\n%s\nA = after history and Reset, B = fresh Runner\n%s", strings.Join(c.Hist, "\n-----\n"), c.Src, d))
		return res
	}
	for _, h := range c.Hist {
		for _, key := range []string{"set -", "shopt", "trap", "alias", "readonly", "export", "cd ", "exec", "exit", "declare", "()"} {
			if strings.Contains(h, key) {
				res.Nontriv = true
			}
		}
	}
	res.Sample = map[string]any{"mode": "reset", "history": len(c.Hist), "src": clip(c.Src, 200)}
	return res
}

var _ = syntax.LangBash
