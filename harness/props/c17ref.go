package props

import (
	"strings"
	"unicode"
)

// A small backtracking matcher for shell patterns, written from bash's
// documented rules. It is the reference for the filename modes of C17, where
// bash cannot be asked directly, and is itself cross-checked against bash in
// every run on the modes bash can decide.

type refOpts struct {
	ext, filenames, globstar, dotOK, nocase bool
}

type refItem struct {
	lo, hi rune
	class  string
}

type refTok struct {
	kind  byte // 'l' literal, '?' any, '*' star, 'G' globstar, '[' bracket, '(' group
	r     rune
	neg   bool
	items []refItem
	op    rune
	alts  [][]refTok
	slash bool // globstar that swallowed the following slash
}

// refParse returns the tokens, or the reason the pattern is malformed by
// pattern.go's documented notion (an error from Regexp is then acceptable).
func refParse(pat string, o refOpts) ([]refTok, string) {
	rs := []rune(pat)
	var parse func(i int, inGroup bool) ([]refTok, [][]refTok, int, string)
	parse = func(i int, inGroup bool) (cur []refTok, alts [][]refTok, next int, bad string) {
		start := i
		for i < len(rs) {
			c := rs[i]
			if inGroup && c == '|' {
				alts = append(alts, cur)
				cur = nil
				i++
				continue
			}
			if inGroup && c == ')' {
				alts = append(alts, cur)
				return nil, alts, i + 1, ""
			}
			switch {
			case c == '\\':
				if i+1 >= len(rs) {
					return nil, nil, 0, "trailing-backslash"
				}
				cur = append(cur, refTok{kind: 'l', r: rs[i+1]})
				i += 2
				continue
			case o.ext && strings.ContainsRune("?*+@!", c) && i+1 < len(rs) && rs[i+1] == '(':
				_, galts, n, b := parse(i+2, true)
				if b != "" {
					return nil, nil, 0, b
				}
				if n < 0 {
					// bash gives unclosed groups a meaning of its own (the operator
					// is literal, but nested closed groups change that again)
					return nil, nil, 0, "unclosed-group"
				}
				cur = append(cur, refTok{kind: '(', op: c, alts: galts})
				i = n
				continue
			case c == '*':
				if o.filenames && o.globstar && !inGroup && i+1 < len(rs) && rs[i+1] == '*' && (i == 0 || rs[i-1] == '/') && (i+2 == len(rs) || rs[i+2] == '/') && !(o.ext && i+2 < len(rs) && rs[i+2] == '(') {
					t := refTok{kind: 'G'}
					i += 2
					if i < len(rs) && rs[i] == '/' {
						t.slash = true
						i++
					}
					cur = append(cur, t)
					continue
				}
				cur = append(cur, refTok{kind: '*'})
				i++
				continue
			case c == '?':
				cur = append(cur, refTok{kind: '?'})
				i++
				continue
			case c == '[':
				t, n, b := refBracket(rs, i, o)
				if b != "" {
					return nil, nil, 0, b
				}
				if n < 0 {
					if inGroup {
						return nil, nil, 0, "unclosed-bracket-in-group"
					}
					cur = append(cur, refTok{kind: 'l', r: '['})
					i++
					continue
				}
				if t.kind == 0 {
					// a bracket holding a slash in filename mode: literal text
					for _, r := range rs[i:n] {
						cur = append(cur, refTok{kind: 'l', r: r})
					}
				} else {
					cur = append(cur, t)
				}
				i = n
				continue
			}
			cur = append(cur, refTok{kind: 'l', r: c})
			i++
		}
		if inGroup {
			_ = start
			return nil, nil, -1, "" // unclosed
		}
		return cur, nil, i, ""
	}
	toks, _, _, bad := parse(0, false)
	return toks, bad
}

var refClasses = map[string]func(rune) bool{
	"alnum": func(r rune) bool { return r < 128 && (unicode.IsLetter(r) || unicode.IsDigit(r)) },
	"alpha": func(r rune) bool { return r < 128 && unicode.IsLetter(r) },
	"ascii": func(r rune) bool { return r < 128 },
	"blank": func(r rune) bool { return r == ' ' || r == '\t' },
	"cntrl": func(r rune) bool { return r < 32 || r == 127 },
	"digit": func(r rune) bool { return r >= '0' && r <= '9' },
	"graph": func(r rune) bool { return r > 32 && r < 127 },
	"lower": func(r rune) bool { return r >= 'a' && r <= 'z' },
	"print": func(r rune) bool { return r >= 32 && r < 127 },
	"punct": func(r rune) bool { return r > 32 && r < 127 && !unicode.IsLetter(r) && !unicode.IsDigit(r) },
	"space": func(r rune) bool { return r == ' ' || (r >= 9 && r <= 13) },
	"upper": func(r rune) bool { return r >= 'A' && r <= 'Z' },
	"word":  func(r rune) bool { return r < 128 && (unicode.IsLetter(r) || unicode.IsDigit(r) || r == '_') },
	"xdigit": func(r rune) bool {
		return (r >= '0' && r <= '9') || (r >= 'a' && r <= 'f') || (r >= 'A' && r <= 'F')
	},
}

// refBracket parses the bracket expression starting at rs[i]=='['. n<0: no
// closing bracket (the '[' is an ordinary character).
func refBracket(rs []rune, i int, o refOpts) (t refTok, n int, bad string) {
	j := i + 1
	t.kind = '['
	if j < len(rs) && (rs[j] == '!' || rs[j] == '^') {
		t.neg = true
		j++
	}
	first := true
	hasSlash := false
	pendingBad := ""
	classBad := ""
	for j < len(rs) {
		c := rs[j]
		if c == ']' && !first {
			if pendingBad != "" {
				return t, 0, pendingBad
			}
			if o.filenames && hasSlash {
				return refTok{}, j + 1, ""
			}
			return t, j + 1, ""
		}
		first = false
		var lo rune
		switch {
		case c == '[' && j+1 < len(rs) && (rs[j+1] == ':' || rs[j+1] == '.' || rs[j+1] == '='):
			sep := string(rs[j+1]) + "]"
			rest := string(rs[j+2:])
			k := strings.Index(rest, sep)
			if k < 0 {
				if rs[j+1] != ':' {
					pendingBad = "collating"
				} else {
					pendingBad = "unclosed-class"
				}
				classBad = pendingBad
				lo = c
				j++
				t.items = append(t.items, refItem{lo: lo, hi: lo})
				continue
			}
			name := rest[:k]
			if strings.Contains(name, "/") {
				hasSlash = true
			}
			if rs[j+1] != ':' {
				pendingBad = "collating"
				classBad = pendingBad
			} else if _, ok := refClasses[name]; !ok {
				pendingBad = "unknown-class"
				classBad = pendingBad
			} else {
				t.items = append(t.items, refItem{class: name})
			}
			j += 2 + len([]rune(name)) + 2
			if j+1 < len(rs) && rs[j] == '-' && rs[j+1] != ']' {
				pendingBad = "range-from-class"
			}
			continue
		case c == '\\' && j+1 < len(rs):
			lo = rs[j+1]
			j += 2
		default:
			lo = c
			j++
		}
		if lo == '/' {
			hasSlash = true
		}
		// range?
		if j+1 < len(rs) && rs[j] == '-' && rs[j+1] != ']' {
			hi := rs[j+1]
			k := j + 2
			if hi == '\\' && k < len(rs) {
				hi = rs[k]
				k++
			}
			if hi == '[' && k < len(rs) && (rs[k] == ':' || rs[k] == '.' || rs[k] == '=') {
				pendingBad = "range-to-class"
			}
			if hi == '/' {
				hasSlash = true
			}
			if hi < lo {
				pendingBad = "reversed-range"
			}
			t.items = append(t.items, refItem{lo: lo, hi: hi})
			j = k
			if j+1 < len(rs) && rs[j] == '-' && rs[j+1] != ']' {
				pendingBad = "range-after-range"
			}
			continue
		}
		t.items = append(t.items, refItem{lo: lo, hi: lo})
	}
	if classBad != "" {
		return t, 0, classBad + "-in-unclosed-bracket"
	}
	return t, -1, ""
}

func refFold(r rune) rune {
	if r >= 'A' && r <= 'Z' {
		return r + 32
	}
	return r
}

func (t *refTok) inSet(c rune, nocase bool) bool {
	try := func(c rune) bool {
		for _, it := range t.items {
			if it.class != "" {
				if refClasses[it.class](c) {
					return true
				}
			} else if c >= it.lo && c <= it.hi {
				return true
			}
		}
		return false
	}
	if try(c) {
		return true
	}
	if nocase {
		if c >= 'a' && c <= 'z' {
			return try(c - 32)
		}
		if c >= 'A' && c <= 'Z' {
			return try(c + 32)
		}
	}
	return false
}

// refMatch reports whether the tokens match s entirely.
func refMatch(toks []refTok, s string, o refOpts) bool {
	rs := []rune(s)
	atStart := func(j int) bool { return j == 0 || rs[j-1] == '/' }
	hiddenDot := func(j int) bool {
		return o.filenames && !o.dotOK && rs[j] == '.' && atStart(j)
	}
	var m func(toks []refTok, j int, k func(int) bool) bool
	m = func(toks []refTok, j int, k func(int) bool) bool {
		if len(toks) == 0 {
			return k(j)
		}
		t, rest := &toks[0], toks[1:]
		switch t.kind {
		case 'l':
			if j >= len(rs) {
				return false
			}
			if rs[j] == t.r || (o.nocase && refFold(rs[j]) == refFold(t.r)) {
				return m(rest, j+1, k)
			}
			return false
		case '?':
			if j >= len(rs) || (o.filenames && rs[j] == '/') || hiddenDot(j) {
				return false
			}
			return m(rest, j+1, k)
		case '[':
			if j >= len(rs) || (o.filenames && rs[j] == '/') || hiddenDot(j) {
				return false
			}
			if t.inSet(rs[j], o.nocase) != t.neg {
				return m(rest, j+1, k)
			}
			return false
		case '*':
			for e := j; ; e++ {
				if m(rest, e, k) {
					return true
				}
				if e >= len(rs) || (o.filenames && rs[e] == '/') || (e == j && hiddenDot(e)) {
					return false
				}
			}
		case 'G':
			// any number of whole path elements
			for e := j; e <= len(rs); e++ {
				seg := rs[j:e]
				ok := true
				for x := range seg {
					if seg[x] == '.' && !o.dotOK && (x == 0 && atStart(j) || x > 0 && seg[x-1] == '/') {
						ok = false
					}
				}
				if t.slash && len(seg) > 0 && seg[len(seg)-1] != '/' {
					ok = false
				}
				if ok && m(rest, e, k) {
					return true
				}
			}
			return false
		case '(':
			oneAlt := func(from int, then func(int) bool) bool {
				for _, a := range t.alts {
					if m(a, from, then) {
						return true
					}
				}
				return false
			}
			var many func(from int) bool
			many = func(from int) bool {
				if m(rest, from, k) {
					return true
				}
				return oneAlt(from, func(e int) bool { return e > from && many(e) })
			}
			switch t.op {
			case '@':
				return oneAlt(j, func(e int) bool { return m(rest, e, k) })
			case '?':
				return m(rest, j, k) || oneAlt(j, func(e int) bool { return m(rest, e, k) })
			case '*':
				return many(j)
			case '+':
				return oneAlt(j, func(e int) bool {
					if e > j {
						return many(e)
					}
					return m(rest, e, k)
				})
			}
			return false
		}
		return false
	}
	return m(toks, 0, func(j int) bool { return j == len(rs) })
}

func refHasNeg(toks []refTok) bool {
	for _, t := range toks {
		if t.kind == '(' {
			if t.op == '!' {
				return true
			}
			for _, a := range t.alts {
				if refHasNeg(a) {
					return true
				}
			}
		}
	}
	return false
}

// refBracketFeatures reports whether any bracket expression of the pattern
// holds a class or a range, and whether one could match a slash through a
// range or class (rather than by naming it).
func refBracketFeatures(toks []refTok) (classOrRange, spansSlash bool) {
	for _, t := range toks {
		switch t.kind {
		case '[':
			for _, it := range t.items {
				if it.class != "" {
					classOrRange = true
					if refClasses[it.class]('/') {
						spansSlash = true
					}
				} else if it.lo != it.hi {
					classOrRange = true
					if it.lo < '/' && '/' < it.hi {
						spansSlash = true
					}
				}
			}
		case '(':
			for _, a := range t.alts {
				c, s := refBracketFeatures(a)
				classOrRange = classOrRange || c
				spansSlash = spansSlash || s
			}
		}
	}
	return
}
