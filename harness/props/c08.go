package props

import (
	"bytes"
	"fmt"
	"io"
	"math/rand/v2"
	"strconv"
	"strings"

	"mvdan.cc/sh/v3/syntax"
	"verif/mon"
	"verif/oracle"
)

// C08: streaming, interactive and reused parsers agree with Parse.
type c08 struct{ base }

func init() { mon.Register(&c08{}) }

type ReuseCase struct {
	SynCase
	History [][]byte `json:"history,omitempty"` // inputs a parser/printer is used on before the input under test
	HistOps []string `json:"history_ops,omitempty"`
}

func (*c08) ID() string { return "C08" }
func (*c08) Rule() string {
	return "parseable, newline-terminated programs that do not end in a line continuation (corpus, grammar, structure/layout mutants, all variants): (a) StmtsSeq statements vs Parse, position-exact; (b) InteractiveSeq fed one line per Read: delivered statements vs Parse, and Incomplete() only where the prefix fed so far fails to parse or ends in a continuation; (c) a Parser/Printer first used on 1..4 other inputs (valid, erroring, other entry points, early-stopped iterators) vs a fresh one. Non-trivial: >= 2 statements or >= 2 lines; distinct: hash of (source, variant, history)."
}
func (*c08) NumCases(tier string) int      { return tierN(tier, 4000, 80000) }
func (*c08) MinNontrivial(tier string) int { return tierN(tier, 1500, 30000) }
func (*c08) New() any                      { return &ReuseCase{} }
func (*c08) Assumptions() []string {
	return []string{"the interactive feeder is an io.Reader returning exactly one line per Read call, which is what a blocking pipe written line by line delivers", "the reference for 'a statement is unfinished after line i' is: Parse of lines 1..i returns an error, or the prefix ends in a line continuation"}
}

func (p *c08) Gen(i int, r *rand.Rand) any {
	for try := 0; try < 20; try++ {
		c := p.synInputX(r, synMustParse, false, false, false)
		if c == nil {
			continue
		}
		src := c.Src
		if len(src) == 0 || src[len(src)-1] != '\n' {
			src = append(append([]byte{}, src...), '\n')
		}
		if endsInContinuation(src) {
			continue
		}
		long := false
		for _, l := range bytes.Split(src, []byte("\n")) {
			if len(l) > 900 {
				long = true
			}
		}
		if long {
			continue
		}
		if _, err := parseAs(src, c.lang(), true); err != nil {
			continue
		}
		if r.IntN(5) == 0 { // blank or whitespace-only first lines: a line ends before any token was read
			pre := []string{"\n", "  \n", "\t\n\n", " \n"}[r.IntN(4)]
			if _, err := parseAs(append([]byte(pre), src...), c.lang(), true); err == nil {
				src = append([]byte(pre), src...)
			}
		}
		c.Src = src
		c.SrcQ = strconv.Quote(string(src))
		rc := &ReuseCase{SynCase: *c}
		for k := r.IntN(5); k > 0; k-- {
			h := p.corpus.Snippets[r.IntN(len(p.corpus.Snippets))]
			switch r.IntN(6) {
			case 0, 1:
				if len(p.corpus.ErrCases) > 0 {
					h = p.corpus.ErrCases[r.IntN(len(p.corpus.ErrCases))].In
				}
			case 2: // cut anywhere: errors in the middle of literals, quotes, here-documents, arrays
				if len(h) > 1 {
					h = h[:1+r.IntN(len(h)-1)]
				}
			case 3: // the same with a here-document still pending when the error strikes
				h = []string{"cat <<EOF ", "cat <<EOF; ", "a <<-X | ", "<<'Q' "}[r.IntN(4)] + h
				if len(h) > 12 {
					h = h[:10+r.IntN(len(h)-10)]
				}
			}
			rc.History = append(rc.History, []byte(h))
			rc.HistOps = append(rc.HistOps, []string{"Parse", "StmtsSeq", "StmtsSeq-stop1", "WordsSeq", "WordsSeq-stop1", "Document", "Arithmetic", "InteractiveSeq-stop1"}[r.IntN(8)])
		}
		rc.Extra = int(r.Uint32() >> 1)
		return rc
	}
	return nil
}

func endsInContinuation(src []byte) bool {
	s := bytes.TrimSuffix(src, []byte("\n"))
	s = bytes.TrimSuffix(s, []byte("\r")) // the lexer treats backslash CR LF like backslash LF
	n := 0
	for i := len(s) - 1; i >= 0 && s[i] == '\\'; i-- {
		n++
	}
	return n%2 == 1
}

type lineReader struct {
	lines [][]byte
	fed   int
}

func (l *lineReader) Read(p []byte) (int, error) {
	if l.fed >= len(l.lines) {
		return 0, io.EOF
	}
	n := copy(p, l.lines[l.fed])
	if n < len(l.lines[l.fed]) {
		l.lines[l.fed] = l.lines[l.fed][n:]
		return n, nil
	}
	l.fed++
	return n, nil
}

var posCanon = oracle.CanonOpts{Pos: true, Comments: true}

func stmtsCanon(ss []*syntax.Stmt) string {
	var b strings.Builder
	for _, s := range ss {
		b.WriteString(oracle.Canon(s, posCanon))
		b.WriteString("\n")
	}
	return b.String()
}

func useParser(p *syntax.Parser, op string, in []byte) {
	defer func() { recover() }() // history runs are not under test here (C06 is)
	rd := bytes.NewReader(in)
	switch op {
	case "Parse":
		p.Parse(rd, "")
	case "StmtsSeq":
		for range p.StmtsSeq(rd) {
		}
	case "StmtsSeq-stop1":
		for range p.StmtsSeq(rd) {
			break
		}
	case "WordsSeq":
		for range p.WordsSeq(rd) {
		}
	case "WordsSeq-stop1":
		for range p.WordsSeq(rd) {
			break
		}
	case "Document":
		p.Document(rd)
	case "Arithmetic":
		p.Arithmetic(rd)
	case "InteractiveSeq-stop1":
		for range p.InteractiveSeq(rd) {
			break
		}
	}
}

// interactiveTrace feeds lines one per Read and records, per callback, how many
// lines had been fed, whether the parser called itself incomplete and how many
// statements were handed over.
func interactiveTrace(ip *syntax.Parser, lines [][]byte) (trace string, delivered []*syntax.Stmt, err error) {
	lr := &lineReader{lines: append([][]byte{}, lines...)}
	var sb strings.Builder
	for ss, e := range ip.InteractiveSeq(lr) {
		if e != nil {
			return sb.String(), delivered, e
		}
		inc := ip.Incomplete()
		fmt.Fprintf(&sb, "(%d,%v,%d)", lr.fed, inc, len(ss))
		if !inc {
			delivered = append(delivered, ss...)
		}
	}
	return sb.String(), delivered, nil
}

func (p *c08) Run(payload any) mon.Result {
	c := payload.(*ReuseCase)
	lang := c.lang()
	keep := c.Extra%2 == 0
	var res mon.Result
	newParser := func() *syntax.Parser {
		return syntax.NewParser(syntax.Variant(lang), syntax.KeepComments(keep))
	}
	f, err := newParser().Parse(bytes.NewReader(c.Src), "")
	if err != nil {
		return mon.Result{Verdict: mon.OutOfDomain, Reason: "does-not-parse"}
	}
	want := stmtsCanon(f.Stmts)
	res.Hash = mon.HashOf(c.Src, c.Lang, c.History, c.HistOps)
	nlines := bytes.Count(c.Src, []byte("\n"))
	res.Nontriv = len(f.Stmts) >= 2 || nlines >= 2
	res.Count("source:"+c.Source, 1)
	res.Count("lang:"+c.Lang, 1)
	res.Evals = 0

	// (a) StmtsSeq
	res.Evals++
	var got []*syntax.Stmt
	for s, err := range newParser().StmtsSeq(bytes.NewReader(c.Src)) {
		if err != nil {
			res.Fail("stmtsseq-error", fmt.Sprintf("lang=%s src=%s\nStmtsSeq yielded error %v on an input Parse accepts", c.Lang, c.SrcQ, err))
			return res
		}
		got = append(got, s)
	}
	if g := stmtsCanon(got); g != want {
		res.Fail("stmtsseq-differs", fmt.Sprintf("lang=%s src=%s\n%s", c.Lang, c.SrcQ, oracle.FirstDiff(want, g)))
		return res
	}
	res.Count("stmts_streamed", len(got))

	// (b) InteractiveSeq, one line per Read
	res.Evals++
	lines := bytes.SplitAfter(c.Src, []byte("\n"))
	if len(lines) > 0 && len(lines[len(lines)-1]) == 0 {
		lines = lines[:len(lines)-1]
	}
	lr := &lineReader{lines: append([][]byte{}, lines...)}
	ip := newParser()
	var delivered []*syntax.Stmt
	prefixUnfinished := func(k int) bool {
		if k <= 0 || k > len(lines) {
			return false
		}
		pre := bytes.Join(lines[:k], nil)
		if endsInContinuation(pre) {
			return true
		}
		_, err := newParser().Parse(bytes.NewReader(pre), "")
		return err != nil
	}
	callbacks := 0
	for ss, err := range ip.InteractiveSeq(lr) {
		callbacks++
		if err != nil {
			res.Fail("interactive-error", fmt.Sprintf("lang=%s src=%s\nInteractiveSeq yielded error %v after %d lines", c.Lang, c.SrcQ, err, lr.fed))
			return res
		}
		if ip.Incomplete() {
			res.Count("incomplete_callbacks", 1)
			if !prefixUnfinished(lr.fed) {
				res.Fail("incomplete-but-finished", fmt.Sprintf("lang=%s src=%s\nIncomplete() is true after %d lines, but those lines parse as a complete program", c.Lang, c.SrcQ, lr.fed))
				return res
			}
			continue
		}
		delivered = append(delivered, ss...)
	}
	if g := stmtsCanon(delivered); g != want {
		res.Fail("interactive-differs", fmt.Sprintf("lang=%s src=%s\ndelivered %d statements, Parse has %d\n%s", c.Lang, c.SrcQ, len(delivered), len(f.Stmts), oracle.FirstDiff(want, g)))
		return res
	}
	res.Count("interactive_callbacks", callbacks)

	// (c) reuse
	if len(c.History) > 0 {
		res.Evals++
		recov := []int{0, 0, 1, 5}[c.Extra/2%4] // the reused parser and its fresh twin may also recover errors
		newParserC := func() *syntax.Parser {
			if recov == 0 {
				return newParser()
			}
			return syntax.NewParser(syntax.Variant(lang), syntax.KeepComments(keep), syntax.RecoverErrors(recov))
		}
		used := func() *syntax.Parser {
			up := newParserC()
			for i, h := range c.History {
				useParser(up, c.HistOps[i], h)
			}
			return up
		}
		rp := used()
		for i := range c.History {
			res.Count("history:"+c.HistOps[i], 1)
		}
		// streaming and interactive use of a reused parser: same statements, same
		// Incomplete() answers at every callback as a fresh one
		t1, d1, e1x := interactiveTrace(newParserC(), lines)
		t2, d2, e2x := interactiveTrace(used(), lines)
		if t1 != t2 || stmtsCanon(d1) != stmtsCanon(d2) || fmt.Sprint(e1x) != fmt.Sprint(e2x) {
			res.Fail("reused-interactive-differs", fmt.Sprintf("lang=%s src=%s history=%q ops=%v recover=%d\nfresh  (lines fed, incomplete, statements) per callback: %s err=%v\nreused: %s err=%v", c.Lang, c.SrcQ, c.History, c.HistOps, recov, t1, e1x, t2, e2x))
			return res
		}
		var s2 []*syntax.Stmt
		var s2err error
		for st, err := range used().StmtsSeq(bytes.NewReader(c.Src)) {
			if err != nil {
				s2err = err
				break
			}
			s2 = append(s2, st)
		}
		if s2err != nil || stmtsCanon(s2) != want {
			res.Fail("reused-stmtsseq-differs", fmt.Sprintf("lang=%s src=%s history=%q ops=%v recover=%d\nerr=%v\n%s", c.Lang, c.SrcQ, c.History, c.HistOps, recov, s2err, oracle.FirstDiff(want, stmtsCanon(s2))))
			return res
		}
		f2, err := rp.Parse(bytes.NewReader(c.Src), "")
		if err != nil {
			res.Fail("reused-parser-error", fmt.Sprintf("lang=%s src=%s history=%q ops=%v\nreused parser: %v", c.Lang, c.SrcQ, c.History, c.HistOps, err))
			return res
		}
		if a, b := oracle.Canon(f, posCanon), oracle.Canon(f2, posCanon); a != b {
			res.Fail("reused-parser-differs", fmt.Sprintf("lang=%s src=%s history=%q ops=%v\n%s", c.Lang, c.SrcQ, c.History, c.HistOps, oracle.FirstDiff(a, b)))
			return res
		}
		// an erroring input under test too: same error from reused and fresh
		last := c.History[len(c.History)-1]
		_, e1 := newParserC().Parse(bytes.NewReader(last), "")
		_, e2 := rp.Parse(bytes.NewReader(last), "")
		if fmt.Sprint(e1) != fmt.Sprint(e2) {
			res.Fail("reused-parser-error-differs", fmt.Sprintf("lang=%s input=%q\nfresh: %v\nreused: %v", c.Lang, last, e1, e2))
			return res
		}
		// printers
		o := POpts{Indent: uint(c.Extra % 3 * 2), BinaryNextLine: c.Extra%5 == 0, KeepPadding: c.Extra%7 == 0}
		pr := o.Printer()
		for _, h := range c.History {
			if hf, err := newParser().Parse(bytes.NewReader(h), ""); err == nil {
				var sink bytes.Buffer
				pr.Print(&sink, hf)
				if len(hf.Stmts) > 0 {
					pr.Print(&sink, hf.Stmts[0])
				}
			}
		}
		var b1, b2 bytes.Buffer
		e1 = pr.Print(&b1, f)
		e2 = o.Printer().Print(&b2, f)
		if fmt.Sprint(e1) != fmt.Sprint(e2) || !bytes.Equal(b1.Bytes(), b2.Bytes()) {
			res.Fail("reused-printer-differs", fmt.Sprintf("lang=%s opts=%s src=%s history=%q\nreused: %q %v\nfresh:  %q %v", c.Lang, o, c.SrcQ, c.History, b1.String(), e1, b2.String(), e2))
			return res
		}
	}
	res.Sample = map[string]any{"src": truncStr(c.SrcQ, 200), "lang": c.Lang, "lines": nlines, "stmts": len(f.Stmts), "history_ops": c.HistOps}
	return res
}
