package props

import (
	"fmt"
	"math/rand/v2"
	"regexp"
	"sort"
	"strconv"
	"strings"
	"time"

	"verif/mon"
)

// C24: printf and echo -e format like bash.
type c24 struct{ base }

func init() { mon.Register(&c24{}) }

var c24BigU = regexp.MustCompile(`\\U([0-9a-fA-F]{1,8})`)

func (*c24) ID() string { return "C24" }
func (*c24) Rule() string {
	return "printf with format strings built from the directives the property names (%s %b %c %d %i %u %o %x %%), the flags - + space 0, widths, literal text and the escape sequences \\a \\b \\e \\f \\n \\r \\t \\v \\\\ \\' \\\" \\? \\NNN \\xHH \\uHHHH \\UHHHHHHHH (valid and truncated), over argument lists that are numeric, negative, hex/octal, quoted-character ('a), empty, non-numeric, too few and too many (format reuse); and echo with -n, -e, -E alone and combined over arguments containing the same escapes. Each snippet runs in bash 5.2 and in interp (120 per batch, differences confirmed alone); stdout bytes and the status must agree. Snippets on which bash prints a diagnostic are compared on status and stdout as well (a non-numeric argument is part of 'every argument list'). Non-trivial: the batch ran; distinct: hash of the batch."
}
func (*c24) NumCases(tier string) int      { return tierN(tier, 100, 2500) }
func (*c24) MinNontrivial(tier string) int { return tierN(tier, 60, 1500) }
func (*c24) New() any                      { return &SnipBatch{} }
func (*c24) CaseTimeout() time.Duration    { return 300 * time.Second }
func (*c24) Assumptions() []string {
	return []string{"bash 5.2.15 with LC_ALL=C.UTF-8 is ground truth", "precisions and the # flag are not generated: the property does not list them"}
}

// c24Carves maps a known finding to the tag conjunctions it carves out.
var c24Carves = map[string][][]string{
	"C24-printf-options":             {{"printf:--"}, {"printf:-v"}},
	"C24-percent-with-flags":         {{"percent-with-flag-or-width"}},
	"C24-flags-follow-go-fmt":        {{"sign-flag-on-unsigned"}, {"sign-flag-on-string"}, {"zero-flag-on-string"}, {"width-on-c-or-b"}, {"multiple-flags"}},
	"C24-backslash-before-percent":   {{"escape:\\"}},
	"C24-width-counts-characters":    {{"width-with-multibyte-arg"}},
	"C24-numeric-argument-handling":  {{"illtyped-numeric-arg"}, {"missing-numeric-arg"}},
	"C24-octal-escape-takes-8-and-9": {{"escape:\\18"}},
	"C24-echo-and-b-escapes":         {{"echo", "escape:\\c"}, {"echo", "escape:\\1"}, {"echo", "escape:\\101"}, {"echo", "escape:\\0101"}, {"echo", "escape:\\777"}, {"echo", "escape:\\18"}, {"echo", "escape:\\\""}, {"echo", "escape:\\?"}, {"echo", "escape:\\'"}, {"b-arg-with-special-escape"}},
	"C24-echo-option-clusters":       {{"echo-opts:-ne"}, {"echo-opts:-en"}, {"echo-opts:-nE"}, {"echo-opts:-eE"}, {"echo-opts:-Ee"}, {"echo-opts:-nx"}},
}

func (p *c24) carved(tags map[string]bool) bool {
	for id, conjs := range c24Carves {
		if !p.env.Findings.Carved(id) {
			continue
		}
		for _, conj := range conjs {
			all := true
			for _, t := range conj {
				if !tags[t] {
					all = false
				}
			}
			if all {
				return true
			}
		}
	}
	return false
}

var printfEscapes = []string{`\a`, `\b`, `\e`, `\f`, `\n`, `\r`, `\t`, `\v`, `\\`, `\'`, `\"`, `\?`, `\0`, `\1`, `\101`, `\0101`, `\18`, `\8`, `\777`, `\x41`, `\x4`, `\x`, `\xZ`, `é`, `\u41`, `\u`, `\U0001F600`, `\U41`, `\c`, `\q`, `\`}

func (p *c24) genPrintf(r *rand.Rand) (string, map[string]bool) {
	tags := map[string]bool{"printf": true}
	var f strings.Builder
	var convs []string // conversions that consume an argument, in order ("*" for a width taken from the arguments)
	for n := 1 + r.IntN(4); n > 0; n-- {
		switch k := r.IntN(10); {
		case k < 5:
			f.WriteString("%")
			flags := ""
			for _, fl := range []string{"-", "+", " ", "0"} {
				if r.IntN(6) == 0 {
					flags += fl
				}
			}
			f.WriteString(flags)
			width := ""
			if r.IntN(3) == 0 {
				width = []string{"1", "3", "5", "10", "2"}[r.IntN(5)]
				f.WriteString(width)
				tags["width"] = true
				if width == "*" {
					tags["width:*"] = true
					convs = append(convs, "*")
				}
			}
			c := []string{"s", "s", "b", "c", "d", "d", "i", "u", "o", "x", "x", "%"}[r.IntN(12)]
			f.WriteString(c)
			tags["conv:"+c] = true
			for _, fl := range flags {
				tags["flag:"+string(fl)] = true
				switch {
				case c == "%":
					tags["percent-with-flag-or-width"] = true
				case (fl == '+' || fl == ' ') && strings.Contains("uoxX", c):
					tags["sign-flag-on-unsigned"] = true
				case (fl == '+' || fl == ' ') && strings.Contains("sbc", c):
					tags["sign-flag-on-string"] = true
				case fl == '0' && strings.Contains("sbc", c):
					tags["zero-flag-on-string"] = true
				}
			}
			if len(flags) > 1 {
				tags["multiple-flags"] = true
			}
			if width != "" && c == "%" {
				tags["percent-with-flag-or-width"] = true
			}
			if width != "" && (c == "c" || c == "b") {
				tags["width-on-c-or-b"] = true
			}
			if c != "%" {
				convs = append(convs, c)
			}
		case k < 7:
			e := printfEscapes[r.IntN(len(printfEscapes))]
			f.WriteString(e)
			tags["escape:"+e] = true
		default:
			f.WriteString([]string{"x", "ab", " ", "-", ":", "é", "%%"}[r.IntN(7)])
		}
	}
	ints := []string{"5", "-3", "0", "42", "0x1f", "010", "9223372036854775807", "-9223372036854775808", "7", "-0"}
	strs := []string{"5", "", "abc", "a b", "héllo", `\n`, `x\ty`, `\101`, "%s", "-", "--", "-n", "3x"}
	bad := []string{"", "abc", "3x", "1.5", " 7", "+8", "'a", "\"b", "0x", "08", "99999999999999999999", "- 1"}
	illtyped := r.IntN(5) == 0
	rounds := []int{0, 1, 1, 1, 2}[r.IntN(5)]
	var args []string
	for round := 0; round < rounds; round++ {
		for _, c := range convs {
			var a string
			switch {
			case strings.Contains("sbc", c):
				a = strs[r.IntN(len(strs))]
				if c == "b" && r.IntN(4) == 0 {
					a = []string{`x\cy`, `\0101`, `\1`, `a\0007b`}[r.IntN(4)]
					tags["b-arg-with-special-escape"] = true
				}
			case illtyped && r.IntN(2) == 0:
				a = bad[r.IntN(len(bad))]
				tags["illtyped-numeric-arg"] = true
			case c == "*":
				a = []string{"0", "1", "4", "12", "-6"}[r.IntN(5)]
			default:
				a = ints[r.IntN(len(ints))]
			}
			args = append(args, shq(a))
			if tags["width"] && strings.ContainsRune(a, 'é') {
				tags["width-with-multibyte-arg"] = true
			}
		}
	}
	if rounds > 0 && len(convs) > 0 && r.IntN(6) == 0 {
		args = args[:len(args)-1-r.IntN(len(args))] // too few: the rest are missing
		tags["missing-args"] = true
		for _, c := range convs {
			if !strings.Contains("sbc", c) {
				tags["missing-numeric-arg"] = true
			}
		}
	}
	if rounds == 0 {
		for _, c := range convs {
			if !strings.Contains("sbc", c) {
				tags["missing-numeric-arg"] = true
			}
		}
	}
	if len(convs) == 0 && r.IntN(3) == 0 {
		args = append(args, shq("extra")) // arguments but nothing to consume them
		tags["args-without-conversions"] = true
	}
	pre := ""
	if strings.HasPrefix(f.String(), "-") {
		pre = "-- " // a format starting with '-' would be read as an option
		tags["printf:--"] = true
	} else if r.IntN(12) == 0 {
		pre = "-- "
		tags["printf:--"] = true
	}
	if r.IntN(15) == 0 {
		pre = "-v pv " + pre
		tags["printf:-v"] = true
		return "printf " + pre + shq(f.String()) + " " + strings.Join(args, " ") + "\necho \"s=$? pv=[$pv]\"", tags
	}
	return "printf " + pre + shq(f.String()) + " " + strings.Join(args, " ") + "\necho \"|s=$?\"", tags
}

func (p *c24) genEcho(r *rand.Rand) (string, map[string]bool) {
	tags := map[string]bool{"echo": true}
	opts := []string{"", "-n", "-e", "-E", "-ne", "-en", "-nE", "-e -n", "-n -e", "-eE", "-Ee", "-x", "-", "--", "-nx"}
	o := opts[r.IntN(len(opts))]
	tags["echo-opts:"+o] = true
	var args []string
	for n := r.IntN(4); n > 0; n-- {
		var a strings.Builder
		for m := 1 + r.IntN(3); m > 0; m-- {
			if r.IntN(2) == 0 {
				e := printfEscapes[r.IntN(len(printfEscapes))]
				a.WriteString(e)
				tags["escape:"+e] = true
			} else {
				a.WriteString([]string{"a", "b c", "-n", "é", "x"}[r.IntN(5)])
			}
		}
		args = append(args, shq(a.String()))
	}
	return "echo " + o + " " + strings.Join(args, " ") + "\necho \"|s=$?\"", tags
}

func (p *c24) Gen(i int, r *rand.Rand) any {
	b := &SnipBatch{}
	for k := 0; k < 120; k++ {
		var src string
		var tags map[string]bool
		for try := 0; try < 30; try++ {
			if r.IntN(4) == 0 {
				src, tags = p.genEcho(r)
			} else {
				src, tags = p.genPrintf(r)
			}
			if !p.carved(tags) {
				break
			}
			src = ""
		}
		if src == "" {
			continue
		}
		var tl []string
		for t := range tags {
			tl = append(tl, t)
		}
		sort.Strings(tl)
		tl = append(tl, "diag-ok")
		b.Snips = append(b.Snips, Snip{Src: src, Tags: tl})
	}
	return b
}

func (p *c24) Run(payload any) mon.Result {
	b := payload.(*SnipBatch)
	res := p.diffSnips(b, func(s Snip, bash, interp snipFrame) (string, string) {
		// \U with a value beyond U+10FFFF is no character: bash writes the obsolete
		// five- and six-byte forms, which no UTF-8 consumer accepts
		for _, m := range c24BigU.FindAllStringSubmatch(s.Src, -1) {
			if v, err := strconv.ParseUint(m[1], 16, 64); err == nil && v > 0x10FFFF {
				return mon.OutOfDomain, "code-point-beyond-U+10FFFF"
			}
		}
		return "", ""
	}, nil)
	if res.Verdict == "" || res.Verdict == mon.Held {
		res.Hash = mon.HashOf(b)
		res.Nontriv = res.Evals > 0
		if len(b.Snips) > 0 {
			res.Sample = map[string]any{"snippets": len(b.Snips), "first": clip(b.Snips[0].Src, 300)}
		}
	}
	return res
}

var _ = fmt.Sprint
