package mon

import (
	"encoding/json"
	"fmt"
	"os"
	"sort"
)

// Finding is one entry of /verif/KNOWN_FINDINGS.json. The file is committed and
// only edited by hand; nothing here writes it.
type Finding struct {
	ID       string `json:"id"`
	Status   string `json:"status"` // "known" | "fixed"
	Property string `json:"property"`
	What     string `json:"what"`
	Commit   string `json:"commit,omitempty"` // for fixed entries
	// Carve: the generator of the property does not emit this region while the
	// finding is listed as known (the region is then monitored only through the
	// pinned witnesses). Free text naming the generator switch.
	Carve string `json:"carve,omitempty"`
	// Predicate: name of a difference predicate in the monitor that accepts a
	// failure only if the difference itself has exactly the finding's shape.
	Predicate string            `json:"predicate,omitempty"`
	Witnesses []json.RawMessage `json:"witnesses"`
}

type Findings struct {
	List      []Finding
	byID      map[string]*Finding
	replaying bool
}

type witness struct {
	Finding *Finding
	Payload json.RawMessage
}

func LoadFindings(path string) (*Findings, error) {
	f := &Findings{byID: map[string]*Finding{}}
	b, err := os.ReadFile(path)
	if os.IsNotExist(err) {
		return f, nil
	}
	if err != nil {
		return nil, err
	}
	var doc struct {
		Findings []Finding `json:"findings"`
	}
	if err := json.Unmarshal(b, &doc); err != nil {
		return nil, fmt.Errorf("%s: %v", path, err)
	}
	f.List = doc.Findings
	for i := range f.List {
		x := &f.List[i]
		if x.Status != "known" && x.Status != "fixed" {
			return nil, fmt.Errorf("%s: finding %s has status %q", path, x.ID, x.Status)
		}
		if _, dup := f.byID[x.ID]; dup {
			return nil, fmt.Errorf("%s: duplicate finding id %s", path, x.ID)
		}
		f.byID[x.ID] = x
	}
	return f, nil
}

// Active reports whether a finding with this id is listed as known. Generators
// use it for carve-outs and monitors for difference predicates; when the entry
// is removed or becomes "fixed", the region is generated and judged again.
// While witnesses are replayed no predicate is active, so a witness always
// shows its raw verdict.
func (f *Findings) Active(id string) bool {
	if f == nil || f.replaying {
		return false
	}
	x, ok := f.byID[id]
	return ok && x.Status == "known"
}

// Carved is Active for generator carve-outs (it stays true during witness replay:
// it only influences what is generated).
func (f *Findings) Carved(id string) bool {
	if f == nil {
		return false
	}
	x, ok := f.byID[id]
	return ok && x.Status == "known"
}

func (f *Findings) witnesses(prop string) []witness {
	var ws []witness
	for i := range f.List {
		x := &f.List[i]
		if x.Property != prop {
			continue
		}
		for _, w := range x.Witnesses {
			ws = append(ws, witness{x, w})
		}
	}
	return ws
}

func (f *Findings) carvedFor(prop string) []string {
	var out []string
	for _, x := range f.List {
		if x.Property == prop && x.Status == "known" && x.Carve != "" {
			out = append(out, x.ID+": "+x.Carve)
		}
	}
	sort.Strings(out)
	return out
}
