// Package mon is the supervisor of the runtime monitors: it shards a
// deterministic case list over child processes, keeps a journal so that a dying
// child can be attributed to a case, aggregates verdicts into an evidence
// file, writes replay files and applies the known-findings policy.
package mon

import (
	"bufio"
	"bytes"
	"crypto/sha256"
	"encoding/hex"
	"encoding/json"
	"flag"
	"fmt"
	"math/rand/v2"
	"os"
	"os/exec"
	"path/filepath"
	"runtime"
	"runtime/debug"
	"sort"
	"strconv"
	"strings"
	"sync"
	"time"
)

// Verdicts.
const (
	Held         = "held"
	Violated     = "violated"
	Inconclusive = "inconclusive"
	OutOfDomain  = "ood"
	Known        = "known" // violated, but fully explained by a listed known finding
)

// Result is what a monitor reports for one case.
type Result struct {
	Idx      int            `json:"idx"`
	Verdict  string         `json:"v"`
	Reason   string         `json:"reason,omitempty"` // class of inconclusive / ood / violated / known finding id
	Detail   string         `json:"detail,omitempty"`
	Hash     string         `json:"hash,omitempty"`
	Nontriv  bool           `json:"nt,omitempty"`
	Counters map[string]int `json:"ctr,omitempty"`
	Sample   any            `json:"sample,omitempty"`
	Payload  any            `json:"payload,omitempty"` // the case, for replay (violations only)
	Evals    int            `json:"evals,omitempty"`   // executions behind this case (default 1)
	Done     bool           `json:"done,omitempty"`    // child finished its shard
	Setup    map[string]any `json:"setup,omitempty"`
}

// Count adds n to a named evidence counter.
func (r *Result) Count(name string, n int) {
	if r.Counters == nil {
		r.Counters = map[string]int{}
	}
	r.Counters[name] += n
}

// Fail marks the result violated.
func (r *Result) Fail(reason, detail string) {
	if r.Verdict == Violated {
		return
	}
	r.Verdict = Violated
	r.Reason = reason
	r.Detail = detail
}

// Prop is one property monitor.
type Prop interface {
	ID() string
	Level() string // evidence level: exploration | fault_enumeration
	Rule() string
	// NumCases is the fixed case count of a tier.
	NumCases(tier string) int
	// MinNontrivial is the floor under which a run is inconclusive.
	MinNontrivial(tier string) int
	// Init is called once per process before Gen/Run.
	Init(env *Env) error
	// Gen derives case i deterministically from r.
	Gen(i int, r *rand.Rand) any
	// New returns a pointer to a zero payload for JSON decoding (replay).
	New() any
	// Run executes one case.
	Run(payload any) Result
	Assumptions() []string
}

// Optional interfaces.
type (
	// Raced props need the -race build of vcheck.
	Raced interface{ Race(tier string) bool }
	// Workers overrides the number of child processes.
	Workers interface{ Workers(tier string) int }
	// CaseTimeout overrides the per-case wall-clock watchdog.
	CaseTimeout interface{ CaseTimeout() time.Duration }
	// CrashIsViolation: a dying child is a violation of this property
	// (otherwise a broken check).
	CrashIsViolation interface{ CrashIsViolation() bool }
	// Shrinker minimises a violating payload; still(p) reports whether p still
	// violates with the same reason class.
	Shrinker interface {
		Shrink(payload any, still func(any) bool) any
	}
	// ChildEnv adds environment variables to the worker processes (e.g. GORACE).
	ChildEnv interface{ ChildEnv(env *Env) []string }
	// Finisher lets a property add run-level conclusions once all results are in
	// (only evidence extras and inconclusive conditions, never verdicts on cases).
	Finisher interface {
		Finish(tier string, counters map[string]int) (extra map[string]any, inconclusive string)
	}
)

// Env is the run environment handed to a property.
type Env struct {
	Repo     string // path of the mvdan/sh tree under test
	Verif    string // /verif
	Build    string // /verif/.build
	Tier     string
	Seed     uint64
	Findings *Findings
	Worker   bool
	Shard    int
	Out      string // where evidence/ and replay/ are written (Verif unless VERIF_OUT is set: seeded-change trials)
}

var registry = map[string]Prop{}

func Register(p Prop) { registry[p.ID()] = p }

func PropIDs() []string {
	var ids []string
	for id := range registry {
		ids = append(ids, id)
	}
	sort.Strings(ids)
	return ids
}

// CaseRand returns the PRNG for case i.
func CaseRand(seed uint64, prop string, i int) *rand.Rand {
	h := sha256.Sum256([]byte(fmt.Sprintf("%d/%s/%d", seed, prop, i)))
	var a, b uint64
	for k := 0; k < 8; k++ {
		a = a<<8 | uint64(h[k])
		b = b<<8 | uint64(h[8+k])
	}
	return rand.New(rand.NewPCG(a, b))
}

func HashOf(parts ...any) string {
	h := sha256.New()
	for _, p := range parts {
		switch v := p.(type) {
		case string:
			h.Write([]byte(v))
		case []byte:
			h.Write(v)
		default:
			b, _ := json.Marshal(v)
			h.Write(b)
		}
		h.Write([]byte{0})
	}
	return hex.EncodeToString(h.Sum(nil)[:8])
}

// Main is the entry point of cmd/vcheck.
func Main() {
	var (
		prop    = flag.String("prop", "", "property id")
		tier    = flag.String("tier", "quick", "quick|thorough")
		seed    = flag.Uint64("seed", 1, "PRNG seed")
		repo    = flag.String("repo", "/repo", "tree under test")
		verif   = flag.String("verif", "/verif", "verif root")
		worker  = flag.Bool("worker", false, "internal: run as a child")
		shard   = flag.Int("shard", 0, "internal")
		of      = flag.Int("of", 1, "internal")
		start   = flag.Int("start", 0, "internal: first case index")
		journal = flag.String("journal", "", "internal")
		replay  = flag.String("replay", "", "replay file to re-run")
		wit     = flag.Bool("witnesses", false, "internal: replay known-finding witnesses")
		ncases  = flag.Int("n", 0, "override case count (exploration only; not used by MANIFEST)")
		racebin = flag.String("racebin", "", "path of the -race build of vcheck")
		build   = flag.String("build", "", "build/scratch directory (default <verif>/.build)")
	)
	flag.Parse()
	p, ok := registry[*prop]
	if !ok {
		fmt.Fprintf(os.Stderr, "unknown property %q; have %v\n", *prop, PropIDs())
		os.Exit(2)
	}
	env := &Env{Repo: *repo, Verif: *verif, Build: filepath.Join(*verif, ".build"), Tier: *tier, Seed: *seed, Worker: *worker, Shard: *shard, Out: *verif}
	if o := os.Getenv("VERIF_OUT"); o != "" {
		env.Out = o
	}
	if *build != "" {
		env.Build = *build
	}
	f, err := LoadFindings(filepath.Join(*verif, "KNOWN_FINDINGS.json"))
	if err != nil {
		fmt.Fprintf(os.Stderr, "known findings: %v\n", err)
		os.Exit(2)
	}
	env.Findings = f
	switch {
	case *worker && *wit:
		childWitnesses(p, env)
	case *worker && *replay != "":
		childReplay(p, env, *replay)
	case *worker:
		childMain(p, env, *shard, *of, *start, *journal, *ncases)
	case *replay != "":
		os.Exit(superReplay(p, env, *replay, *racebin))
	default:
		os.Exit(supervise(p, env, *ncases, *racebin))
	}
}

// ---------------------------------------------------------------- child side

var outMu sync.Mutex
var outW = bufio.NewWriterSize(os.Stdout, 1<<16)

func emit(r Result) {
	b, err := json.Marshal(r)
	if err != nil {
		r.Sample, r.Payload = nil, nil
		r.Detail += " (marshal: " + err.Error() + ")"
		b, _ = json.Marshal(r)
	}
	outMu.Lock()
	outW.Write([]byte{1}) // frame marker: anything the code under test prints cannot start with \x01
	outW.Write(b)
	outW.WriteByte('\n')
	outW.Flush()
	outMu.Unlock()
}

// RunCase runs one payload with panic recovery and a wall-clock watchdog.
func RunCase(p Prop, idx int, payload any) (res Result, timedOut bool) {
	to := 120 * time.Second
	if ct, ok := p.(CaseTimeout); ok {
		to = ct.CaseTimeout()
	}
	ch := make(chan Result, 1)
	go func() {
		var r Result
		defer func() {
			if e := recover(); e != nil {
				r = Result{Verdict: Violated, Reason: "panic", Detail: fmt.Sprintf("panic: %v\n%s", e, trimStack(debug.Stack()))}
				r.Payload = payload
			}
			ch <- r
		}()
		r = p.Run(payload)
	}()
	select {
	case r := <-ch:
		r.Idx = idx
		if r.Verdict == "" {
			r.Verdict = Held
		}
		if r.Verdict == Violated && r.Payload == nil {
			r.Payload = payload
		}
		return r, false
	case <-time.After(to):
		return Result{Idx: idx, Verdict: Inconclusive, Reason: "watchdog", Detail: fmt.Sprintf("case still running after %s wall-clock", to), Payload: payload}, true
	}
}

func trimStack(b []byte) string {
	lines := strings.Split(string(b), "\n")
	var keep []string
	for i := 0; i < len(lines); i++ {
		l := lines[i]
		if strings.Contains(l, "runtime/debug.Stack") || strings.Contains(l, "mon.RunCase") {
			i++
			continue
		}
		keep = append(keep, l)
		if len(keep) > 40 {
			break
		}
	}
	return strings.Join(keep, "\n")
}

func childMain(p Prop, env *Env, shard, of, start int, journal string, override int) {
	if err := p.Init(env); err != nil {
		fmt.Fprintf(os.Stderr, "init: %v\n", err)
		os.Exit(3)
	}
	n := p.NumCases(env.Tier)
	if override > 0 {
		n = override
	}
	var jf *os.File
	if journal != "" {
		var err error
		jf, err = os.OpenFile(journal, os.O_CREATE|os.O_WRONLY|os.O_APPEND, 0o644)
		if err != nil {
			fmt.Fprintf(os.Stderr, "journal: %v\n", err)
			os.Exit(3)
		}
	}
	for i := start; i < n; i++ {
		if i%of != shard {
			continue
		}
		if jf != nil {
			fmt.Fprintf(jf, "%d\n", i)
		}
		payload := p.Gen(i, CaseRand(env.Seed, p.ID(), i))
		if payload == nil {
			emit(Result{Idx: i, Verdict: OutOfDomain, Reason: "generator-skip"})
			continue
		}
		res, timedOut := RunCase(p, i, payload)
		if sh, ok := p.(Shrinker); ok && res.Verdict == Violated && os.Getenv("VERIF_NOSHRINK") == "" {
			res = shrink(p, sh, i, payload, res)
		}
		emit(res)
		if timedOut {
			os.Exit(4) // the stuck goroutine cannot be killed; supervisor restarts after i
		}
	}
	emit(Result{Idx: -1, Done: true})
}

func shrink(p Prop, sh Shrinker, idx int, payload any, orig Result) Result {
	budget := 600
	best := orig
	still := func(q any) bool {
		if budget <= 0 {
			return false
		}
		budget--
		r, to := RunCase(p, idx, q)
		if to {
			budget = 0
			return false
		}
		if r.Verdict == Violated && r.Reason == orig.Reason {
			best = r
			best.Payload = q
			return true
		}
		return false
	}
	sh.Shrink(payload, still)
	best.Counters = orig.Counters
	return best
}

func childReplay(p Prop, env *Env, path string) {
	if err := p.Init(env); err != nil {
		fmt.Fprintf(os.Stderr, "init: %v\n", err)
		os.Exit(3)
	}
	rf, err := readReplay(path)
	if err != nil {
		fmt.Fprintln(os.Stderr, err)
		os.Exit(3)
	}
	payload := p.New()
	if err := json.Unmarshal(rf.Payload, payload); err != nil {
		fmt.Fprintln(os.Stderr, "payload:", err)
		os.Exit(3)
	}
	res, _ := RunCase(p, rf.Idx, deref(payload))
	emit(res)
	emit(Result{Idx: -1, Done: true})
}

func childWitnesses(p Prop, env *Env) {
	if err := p.Init(env); err != nil {
		fmt.Fprintf(os.Stderr, "init: %v\n", err)
		os.Exit(3)
	}
	ws := env.Findings.witnesses(p.ID())
	startAt := 0
	if s := os.Getenv("VERIF_WIT_START"); s != "" {
		startAt, _ = strconv.Atoi(s)
	}
	for i, w := range ws {
		if i < startAt {
			continue
		}
		fmt.Fprintf(os.Stderr, "WITNESS %d\n", i)
		payload := p.New()
		if err := json.Unmarshal(w.Payload, payload); err != nil {
			emit(Result{Idx: i, Verdict: Inconclusive, Reason: "bad-witness", Detail: err.Error()})
			continue
		}
		env.Findings.replaying = true // predicates must not absorb the witness itself
		res, to := RunCase(p, i, deref(payload))
		emit(res)
		if to {
			os.Exit(4)
		}
	}
	emit(Result{Idx: -1, Done: true})
}

// deref turns *T (from New) into T when Gen hands out values; monitors accept both.
func deref(p any) any { return p }

// ------------------------------------------------------------ supervisor side

type replayFile struct {
	Property string          `json:"property"`
	Tier     string          `json:"tier"`
	Seed     uint64          `json:"seed"`
	Idx      int             `json:"idx"`
	Reason   string          `json:"reason"`
	Detail   string          `json:"detail"`
	Payload  json.RawMessage `json:"payload"`
}

func readReplay(path string) (*replayFile, error) {
	b, err := os.ReadFile(path)
	if err != nil {
		return nil, err
	}
	var rf replayFile
	if err := json.Unmarshal(b, &rf); err != nil {
		return nil, fmt.Errorf("%s: %v", path, err)
	}
	return &rf, nil
}

type agg struct {
	mu        sync.Mutex
	evals     int
	cases     int
	distinct  map[string]struct{}
	counters  map[string]int
	samples   []any
	sampleN   int
	byVerdict map[string]int
	incon     map[string]int
	ood       map[string]int
	known     map[string]int
	viol      []Result
	incSample map[string]string
}

func newAgg() *agg {
	return &agg{distinct: map[string]struct{}{}, counters: map[string]int{}, byVerdict: map[string]int{}, incon: map[string]int{}, ood: map[string]int{}, known: map[string]int{}, incSample: map[string]string{}}
}

func (a *agg) add(r Result) {
	a.mu.Lock()
	defer a.mu.Unlock()
	a.cases++
	if r.Evals > 0 {
		a.evals += r.Evals
	} else {
		a.evals++
	}
	a.byVerdict[r.Verdict]++
	for k, v := range r.Counters {
		a.counters[k] += v
	}
	switch r.Verdict {
	case Held, Known:
		if r.Nontriv && r.Hash != "" {
			a.distinct[r.Hash] = struct{}{}
		}
		if r.Verdict == Known {
			a.known[r.Reason]++
		}
		if r.Sample != nil {
			a.sampleN++
			if len(a.samples) < 8 {
				a.samples = append(a.samples, r.Sample)
			} else if a.sampleN%97 == 0 {
				a.samples[(a.sampleN/97)%8] = r.Sample
			}
		}
	case Violated:
		a.viol = append(a.viol, r)
	case Inconclusive:
		a.incon[r.Reason]++
		if _, ok := a.incSample[r.Reason]; !ok {
			b, _ := json.Marshal(r.Payload)
			a.incSample[r.Reason] = truncate(r.Detail+" :: "+string(b), 600)
		}
	case OutOfDomain:
		a.ood[r.Reason]++
	}
}

func truncate(s string, n int) string {
	if len(s) > n {
		return s[:n] + "…"
	}
	return s
}

func numWorkers(p Prop, tier string) int {
	if w, ok := p.(Workers); ok {
		return w.Workers(tier)
	}
	n := runtime.NumCPU() - 2
	if n > 14 {
		n = 14
	}
	if n < 1 {
		n = 1
	}
	if s := os.Getenv("VERIF_WORKERS"); s != "" {
		if k, err := strconv.Atoi(s); err == nil && k > 0 {
			n = k
		}
	}
	return n
}

func selfBin(p Prop, tier, racebin string) string {
	if r, ok := p.(Raced); ok && r.Race(tier) && racebin != "" {
		return racebin
	}
	exe, err := os.Executable()
	if err != nil {
		return os.Args[0]
	}
	return exe
}

// runChild runs one child to completion, feeding results to fn. It returns
// whether the child reported Done, its exit error and the tail of its stderr.
func runChild(bin string, args []string, extraEnv []string, fn func(Result)) (done bool, err error, stderrTail string) {
	cmd := exec.Command(bin, args...)
	cmd.Env = append(os.Environ(), extraEnv...)
	var errBuf tailBuf
	cmd.Stderr = &errBuf
	out, perr := cmd.StdoutPipe()
	if perr != nil {
		return false, perr, ""
	}
	if serr := cmd.Start(); serr != nil {
		return false, serr, ""
	}
	rd := bufio.NewReaderSize(out, 1<<20)
	for {
		line, rerr := rd.ReadBytes('\n')
		if i := bytes.LastIndexByte(line, 1); i >= 0 {
			var r Result
			if jerr := json.Unmarshal(bytes.TrimSpace(line[i+1:]), &r); jerr == nil {
				if r.Done {
					done = true
				} else {
					fn(r)
				}
			}
		}
		if rerr != nil {
			break
		}
	}
	err = cmd.Wait()
	return done, err, errBuf.String()
}

type tailBuf struct {
	mu  sync.Mutex
	buf []byte
}

func (t *tailBuf) Write(p []byte) (int, error) {
	t.mu.Lock()
	defer t.mu.Unlock()
	t.buf = append(t.buf, p...)
	if len(t.buf) > 1<<16 {
		t.buf = t.buf[len(t.buf)-(1<<15):]
	}
	return len(p), nil
}
func (t *tailBuf) String() string { t.mu.Lock(); defer t.mu.Unlock(); return string(t.buf) }

func lastJournal(path string) int {
	b, err := os.ReadFile(path)
	if err != nil {
		return -1
	}
	lines := strings.Fields(string(b))
	if len(lines) == 0 {
		return -1
	}
	n, err := strconv.Atoi(lines[len(lines)-1])
	if err != nil {
		return -1
	}
	return n
}

func supervise(p Prop, env *Env, override int, racebin string) int {
	t0 := time.Now()
	id := p.ID()
	os.MkdirAll(env.Build, 0o755)
	os.MkdirAll(filepath.Join(env.Out, "evidence"), 0o755)
	bin := selfBin(p, env.Tier, racebin)
	if old, _ := filepath.Glob(filepath.Join(env.Out, "replay", id+"-*.json")); len(old) > 0 {
		for _, f := range old { // replay files of earlier runs of this property are stale
			os.Remove(f)
		}
	}
	a := newAgg()
	base := []string{"-prop", id, "-tier", env.Tier, "-seed", fmt.Sprint(env.Seed), "-repo", env.Repo, "-verif", env.Verif, "-build", env.Build, "-worker"}
	if override > 0 {
		base = append(base, "-n", fmt.Sprint(override))
	}
	broken := ""
	crashIsViol := false
	if c, ok := p.(CrashIsViolation); ok {
		crashIsViol = c.CrashIsViolation()
	}

	// 1. known-finding witnesses and fixed-regression witnesses.
	exit := 0
	wits := env.Findings.witnesses(id)
	if len(wits) > 0 {
		got := map[int]Result{}
		startAt := 0
		for attempt := 0; attempt < len(wits)+1 && startAt < len(wits); attempt++ {
			wenv := []string{"VERIF_WIT_START=" + fmt.Sprint(startAt)}
			if ce, ok := p.(ChildEnv); ok {
				wenv = append(wenv, ce.ChildEnv(env)...)
			}
			done, _, stderr := runChild(bin, append(append([]string{}, base...), "-witnesses"), wenv, func(r Result) { got[r.Idx] = r })
			if done {
				break
			}
			// child died on a witness: find which
			last := -1
			for _, l := range strings.Split(stderr, "\n") {
				if strings.HasPrefix(l, "WITNESS ") {
					last, _ = strconv.Atoi(strings.TrimPrefix(l, "WITNESS "))
				}
			}
			if last < 0 {
				broken = "witness child died before any witness: " + truncate(stderr, 400)
				break
			}
			if _, ok := got[last]; !ok {
				got[last] = Result{Idx: last, Verdict: Violated, Reason: "child-death", Detail: truncate(crashHead(stderr), 1500)}
			}
			startAt = last + 1
		}
		printed := map[string]bool{}
		for i, w := range wits {
			r, ok := got[i]
			if !ok {
				broken = fmt.Sprintf("witness %d of %s produced no result", i, w.Finding.ID)
				continue
			}
			failing := r.Verdict == Violated || r.Verdict == Known
			switch w.Finding.Status {
			case "known":
				if failing {
					a.known[w.Finding.ID]++
					if !printed[w.Finding.ID] {
						printed[w.Finding.ID] = true
						fmt.Printf("KNOWN-FINDING: property=%s %s: %s\n", id, w.Finding.ID, w.Finding.What)
					}
				} else if r.Verdict == Held {
					fmt.Printf("NOTE: property=%s known finding %s witness %d no longer reproduces (verdict %s)\n", id, w.Finding.ID, i, r.Verdict)
				} else {
					fmt.Printf("NOTE: property=%s known finding %s witness %d is %s: %s\n", id, w.Finding.ID, i, r.Verdict, r.Reason)
				}
			case "fixed":
				if failing {
					r.Reason = "regression-of-fixed:" + w.Finding.ID + ":" + r.Reason
					r.Payload = json.RawMessage(w.Payload)
					a.viol = append(a.viol, r)
				} else {
					a.counters["fixed_witnesses_held"]++
				}
			}
		}
	}

	// 2. the generated workload.
	n := p.NumCases(env.Tier)
	if override > 0 {
		n = override
	}
	nw := numWorkers(p, env.Tier)
	if nw > n {
		nw = n
	}
	var wg sync.WaitGroup
	var brokenMu sync.Mutex
	jdir, _ := os.MkdirTemp(env.Build, "journal-"+id+"-")
	defer os.RemoveAll(jdir)
	for s := 0; s < nw; s++ {
		wg.Add(1)
		go func(s int) {
			defer wg.Done()
			start := 0
			deaths := 0
			for {
				jpath := filepath.Join(jdir, fmt.Sprintf("j%d", s))
				os.Remove(jpath)
				args := append(append([]string{}, base...), "-shard", fmt.Sprint(s), "-of", fmt.Sprint(nw), "-start", fmt.Sprint(start), "-journal", jpath)
				seen := map[int]bool{}
				var extraEnv []string
				if ce, ok := p.(ChildEnv); ok {
					extraEnv = ce.ChildEnv(env)
				}
				done, err, stderr := runChild(bin, args, extraEnv, func(r Result) { seen[r.Idx] = true; a.add(r) })
				if done {
					return
				}
				last := lastJournal(jpath)
				if last < 0 {
					brokenMu.Lock()
					broken = fmt.Sprintf("worker %d died before its first case: %v: %s", s, err, truncate(stderr, 800))
					brokenMu.Unlock()
					return
				}
				if !seen[last] {
					deaths++
					r := Result{Idx: last, Reason: "child-death", Detail: truncate(crashHead(stderr), 3000)}
					if crashIsViol || looksLikeSUTCrash(stderr) {
						r.Verdict = Violated
						// regenerate the payload for the replay file
						func() {
							defer func() { recover() }()
							r.Payload = p.Gen(last, CaseRand(env.Seed, id, last))
						}()
					} else {
						r.Verdict = Inconclusive
					}
					a.add(r)
				}
				if deaths > 50 {
					brokenMu.Lock()
					broken = fmt.Sprintf("worker %d died more than 50 times", s)
					brokenMu.Unlock()
					return
				}
				start = last + 1
			}
		}(s)
	}
	wg.Wait()

	// 3. verdict and evidence.
	coverage := map[string]any{
		"evaluations":         a.evals,
		"cases":               a.cases,
		"distinct_nontrivial": len(a.distinct),
		"rule":                p.Rule(),
		"samples":             a.samples,
		"verdicts":            a.byVerdict,
		"counters":            a.counters,
		"workers":             nw,
	}
	if len(a.incon) > 0 {
		coverage["inconclusive_by_reason"] = a.incon
		coverage["inconclusive_examples"] = a.incSample
	}
	if len(a.ood) > 0 {
		coverage["out_of_domain_by_reason"] = a.ood
	}
	if len(a.known) > 0 {
		coverage["known_findings_matched"] = a.known
	}
	if carved := env.Findings.carvedFor(id); len(carved) > 0 {
		coverage["carved_out_regions"] = carved
	}
	inconMsg := ""
	if fin, ok := p.(Finisher); ok {
		extra, inc := fin.Finish(env.Tier, a.counters)
		for k, v := range extra {
			coverage[k] = v
		}
		inconMsg = inc
	}
	if len(a.samples) == 0 {
		coverage["samples"] = []any{"(no sample recorded)"}
	}
	// replay files
	var violLines []string
	sort.Slice(a.viol, func(i, j int) bool { return a.viol[i].Idx < a.viol[j].Idx })
	os.MkdirAll(filepath.Join(env.Out, "replay"), 0o755)
	classes := map[string]int{}
	maxPerClass := 5
	if k, err := strconv.Atoi(os.Getenv("VERIF_KEEP")); err == nil && k > 0 {
		maxPerClass = k
	}
	for _, v := range a.viol {
		classes[v.Reason]++
		if classes[v.Reason] > maxPerClass && len(violLines) >= maxPerClass {
			continue // keep output bounded: at most 5 replay files per class
		}
		pb, _ := json.Marshal(v.Payload)
		rf := replayFile{Property: id, Tier: env.Tier, Seed: env.Seed, Idx: v.Idx, Reason: v.Reason, Detail: v.Detail, Payload: pb}
		b, _ := json.MarshalIndent(rf, "", " ")
		path := filepath.Join(env.Out, "replay", fmt.Sprintf("%s-%s.json", id, HashOf(pb, v.Reason)))
		os.WriteFile(path, b, 0o644)
		violLines = append(violLines, fmt.Sprintf("VIOLATION property=%s replay=%s", id, path))
		if classes[v.Reason] <= 3 {
			fmt.Printf("  [%s] %s\n", v.Reason, truncate(strings.ReplaceAll(v.Detail, "\n", "\n    "), 1500))
		}
	}
	if len(a.viol) > 0 {
		coverage["violation_classes"] = classes
	}
	total := a.cases
	nIncon := a.byVerdict[Inconclusive]
	if broken == "" && inconMsg != "" {
		broken = inconMsg
	}
	if broken == "" && total > 0 && nIncon*20 > total {
		broken = fmt.Sprintf("inconclusive share too high: %d of %d: %v", nIncon, total, a.incon)
	}
	if broken == "" && len(a.distinct) < p.MinNontrivial(env.Tier) {
		broken = fmt.Sprintf("too few distinct non-trivial cases: %d < %d", len(a.distinct), p.MinNontrivial(env.Tier))
	}
	ev := map[string]any{
		"property_id": id,
		"tier":        env.Tier,
		"seed":        env.Seed,
		"level":       p.Level(),
		"coverage":    coverage,
		"assumptions": p.Assumptions(),
		"wall_s":      time.Since(t0).Seconds(),
		"violations":  len(a.viol),
	}
	if broken != "" {
		ev["inconclusive"] = broken
	}
	eb, _ := json.MarshalIndent(ev, "", " ")
	evPath := filepath.Join(env.Out, "evidence", id+".json")
	if err := os.WriteFile(evPath, append(eb, '\n'), 0o644); err != nil {
		fmt.Fprintln(os.Stderr, "evidence:", err)
		return 2
	}
	fmt.Printf("%s %s seed=%d: cases=%d evaluations=%d distinct_nontrivial=%d held=%d known=%d ood=%d inconclusive=%d violated=%d wall=%.1fs\n",
		id, env.Tier, env.Seed, a.cases, a.evals, len(a.distinct), a.byVerdict[Held], a.byVerdict[Known], a.byVerdict[OutOfDomain], nIncon, len(a.viol), time.Since(t0).Seconds())
	if len(a.incon) > 0 {
		fmt.Printf("  inconclusive: %v\n", a.incon)
	}
	for _, l := range violLines {
		fmt.Println(l)
	}
	if len(a.viol) > 0 {
		exit = 1
	} else if broken != "" {
		fmt.Printf("INCONCLUSIVE property=%s %s\n", id, broken)
		exit = 2
	}
	return exit
}

func looksLikeSUTCrash(stderr string) bool {
	if !(strings.Contains(stderr, "panic:") || strings.Contains(stderr, "fatal error:")) {
		return false
	}
	return strings.Contains(stderr, "mvdan.cc/sh/v3/")
}

func crashHead(stderr string) string {
	for _, k := range []string{"fatal error:", "panic:", "WARNING: DATA RACE"} {
		if i := strings.Index(stderr, k); i >= 0 {
			s := stderr[i:]
			// for stack overflows the interesting frames are at the start
			return s
		}
	}
	return stderr
}

func superReplay(p Prop, env *Env, path, racebin string) int {
	bin := selfBin(p, env.Tier, racebin)
	rf, err := readReplay(path)
	if err != nil {
		fmt.Fprintln(os.Stderr, err)
		return 2
	}
	var got *Result
	args := []string{"-prop", p.ID(), "-tier", rf.Tier, "-seed", fmt.Sprint(rf.Seed), "-repo", env.Repo, "-verif", env.Verif, "-build", env.Build, "-worker", "-replay", path}
	var renv []string
	if ce, ok := p.(ChildEnv); ok {
		renv = ce.ChildEnv(env)
	}
	done, _, stderr := runChild(bin, args, renv, func(r Result) { got = &r })
	if got == nil {
		if !done {
			fmt.Printf("replay: child died: %s\n", truncate(crashHead(stderr), 2000))
			fmt.Printf("VIOLATION property=%s replay=%s\n", p.ID(), path)
			return 1
		}
		return 2
	}
	fmt.Printf("replay %s: verdict=%s reason=%s\n%s\n", path, got.Verdict, got.Reason, got.Detail)
	if got.Verdict == Violated {
		fmt.Printf("VIOLATION property=%s replay=%s\n", p.ID(), path)
		return 1
	}
	if got.Verdict == Inconclusive {
		return 2
	}
	return 0
}
