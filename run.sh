#!/bin/bash
# Entry point of every MANIFEST command:
#   run.sh --setup
#   run.sh <ID> quick|thorough
#   run.sh <ID> --replay <file>
# Exit 0: held; 1: VIOLATION line printed; 2: broken/inconclusive check.
set -u
VERIF="$(cd "$(dirname "$0")" && pwd)"
REPO="${VERIF_REPO:-/repo}"
BUILD="${VERIF_BUILD:-$VERIF/.build}" # seeded-change trials use their own build directory
export GOFLAGS=-mod=mod GOPROXY=off
unset GOSUMDB GOTOOLCHAIN 2>/dev/null
mkdir -p "$BUILD" "${VERIF_OUT:-$VERIF}/evidence" "${VERIF_OUT:-$VERIF}/replay"
# everything temporary (go build work directories, interp's FIFO directories) lives
# under the build directory and goes away with this invocation; nothing is left in /tmp
export TMPDIR="$BUILD/tmp.$$"
mkdir -p "$TMPDIR"
trap 'rm -rf "$TMPDIR"' EXIT

modfile() {
	# generated module file so that the same harness can be pointed at a scratch copy
	sed "s#=> /repo#=> $REPO#" "$VERIF/harness/go.mod" >"$BUILD/go.mod.new"
	cat "$REPO/go.sum" "$VERIF/harness/go.sum" 2>/dev/null | sort -u >"$BUILD/go.sum.new"
	cmp -s "$BUILD/go.mod.new" "$BUILD/go.mod" || mv "$BUILD/go.mod.new" "$BUILD/go.mod"
	cmp -s "$BUILD/go.sum.new" "$BUILD/go.sum" || mv "$BUILD/go.sum.new" "$BUILD/go.sum"
	rm -f "$BUILD/go.mod.new" "$BUILD/go.sum.new"
}

build_vcheck() { # $1 = "" | race
	local out="$BUILD/vcheck" flags=()
	if [ "${1:-}" = race ]; then out="$BUILD/vcheck-race"; flags=(-race); fi
	(cd "$VERIF/harness" && go build -tags verif "${flags[@]}" -modfile="$BUILD/go.mod" -o "$out" ./cmd/vcheck) >"$BUILD/build.log" 2>&1 || {
		echo "BUILD FAILED (vcheck ${1:-}):"; tail -30 "$BUILD/build.log"; exit 2; }
}

build_tools() { # shfmt and gosh from the tree under test, hooks on
	(cd "$VERIF/harness" && go build -tags verif -modfile="$BUILD/go.mod" -o "$BUILD/shfmt" mvdan.cc/sh/v3/cmd/shfmt) >"$BUILD/build-shfmt.log" 2>&1 || {
		echo "BUILD FAILED (shfmt):"; tail -30 "$BUILD/build-shfmt.log"; exit 2; }
}

needs_race() { case "$1" in C32) return 0 ;; C27|C31) [ "$2" = thorough ] ;; *) return 1 ;; esac; }
needs_tools() { case "$1" in C35|C36) return 0 ;; *) return 1 ;; esac; }

if [ "${1:-}" = --setup ]; then
	modfile
	for t in bash dash strace patch prlimit diff; do command -v $t >/dev/null || { echo "missing tool: $t"; exit 2; }; done
	build_vcheck
	build_vcheck race
	build_tools
	echo "setup ok"
	exit 0
fi

ID="${1:?usage: run.sh <ID> quick|thorough | --replay <file>}"
MODE="${2:-quick}"
SEED="${VERIF_SEED:-1}"
modfile
build_vcheck
RACEARG=()
if [ "$MODE" = --replay ]; then
	if needs_race "$ID" thorough; then build_vcheck race; RACEARG=(-racebin "$BUILD/vcheck-race"); fi
	if needs_tools "$ID"; then build_tools; fi
	"$BUILD/vcheck" -prop "$ID" -seed "$SEED" -repo "$REPO" -verif "$VERIF" -build "$BUILD" "${RACEARG[@]}" -replay "${3:?replay file}"
	exit $?
fi
case "$MODE" in quick|thorough) ;; *) echo "bad tier $MODE"; exit 2 ;; esac
if needs_race "$ID" "$MODE"; then build_vcheck race; RACEARG=(-racebin "$BUILD/vcheck-race"); fi
if needs_tools "$ID"; then build_tools; fi
"$BUILD/vcheck" -prop "$ID" -tier "$MODE" -seed "$SEED" -repo "$REPO" -verif "$VERIF" -build "$BUILD" "${RACEARG[@]}" ${VERIF_N:+-n "$VERIF_N"}
exit $?
