#!/bin/bash
# tools/seed_round2.sh <ID>b [tier]: import a second-round seeded change from /tmp/seed/<ID>b and try it
set -u
SID="$1"; PROP="${SID%b}"; TIER="${2:-quick}"
D=/verif/seeded/$SID
if [ ! -d "$D" ]; then
  demo=$(cd /tmp/seed/$SID && git ls-files --others --exclude-standard | grep '_test.go$' | head -1)
  pkg=$(dirname "$demo")
  /verif/tools/seed_import.sh "$SID" "go test -count=1 -run 'TestSeedDemo' ./$pkg/" "$SID" >/dev/null
  python3 - "$D" "$PROP" <<'PY'
import json,sys
p=sys.argv[1]+'/meta.json'; m=json.load(open(p)); m['property']=sys.argv[2]; json.dump(m,open(p,'w'),indent=1)
PY
fi
/verif/tools/seed_trial.sh "$SID" "$PROP" "$TIER"
