#!/usr/bin/env python3
"""Regenerates the machine-derived parts of DESIGN.md (between BEGIN/END markers):
the findings tables from KNOWN_FINDINGS.json and the seeded-change table from seeded/*/meta.json."""
import json, glob, os, re
D='/verif/DESIGN.md'
kf=json.load(open('/verif/KNOWN_FINDINGS.json'))['findings']
def esc(s): return s.replace('|','\\|').replace('\n',' ')
out=[]
out.append('### Known findings (genuine defects left unrepaired; each has pinned witnesses in KNOWN_FINDINGS.json)\n')
out.append('| property | id | what fails | how the check treats it |\n|---|---|---|---|')
for f in kf:
    if f['status']!='known': continue
    how=f.get('carve') or f.get('predicate') or ''
    out.append('| %s | %s | %s | %s |'%(f['property'],f['id'],esc(f['what']),esc(how)))
out.append('\n### Repaired defects (one `fix:` commit each in /repo; the witness is replayed on every run as a regression check)\n')
out.append('| property | id | commit | what failed |\n|---|---|---|---|')
for f in kf:
    if f['status']!='fixed': continue
    out.append('| %s | %s | %s | %s |'%(f['property'],f['id'],f.get('commit','')[:7],esc(f['what'])))
findings='\n'.join(out)
rows=['| property | what the change needs to manifest | caught by | note |\n|---|---|---|---|']
for m in sorted(glob.glob('/verif/seeded/*/meta.json')):
    d=json.load(open(m))
    rows.append('| %s | %s | %s | %s |'%(d['property'],esc(d.get('needs','')),esc(d.get('caught_by','')),esc(d.get('note',''))))
seeds='\n'.join(rows)
s=open(D).read()
def put(s,tag,body):
    a='<!-- BEGIN %s -->'%tag; b='<!-- END %s -->'%tag
    if a not in s: raise SystemExit('marker missing: '+tag)
    return s[:s.index(a)+len(a)]+'\n'+body+'\n'+s[s.index(b):]
s=put(s,'FINDINGS',findings); s=put(s,'SEEDS',seeds)
if os.path.exists('/verif/tools/thorough_table.md'): s=put(s,'THOROUGH',open('/verif/tools/thorough_table.md').read().strip())
open(D,'w').write(s)
print('tables written:',sum(1 for f in kf if f['status']=='known'),'known,',sum(1 for f in kf if f['status']=='fixed'),'fixed,',len(rows)-1,'seeds')
