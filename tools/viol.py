#!/usr/bin/env python3
# summarise replay files of a property: tools/viol.py C01
import json,glob,sys
rows=[]
for f in glob.glob('/verif/replay/%s-*.json'%sys.argv[1]):
    d=json.load(open(f)); p=d['payload']
    if isinstance(p,dict) and 'src_quoted' in p:
        o=p.get('opts') or []
        rows.append((d['reason'], p.get('lang',''), json.dumps(o[0]) if len(o)==1 else 'multi%d'%len(o), p['src_quoted'][:int(sys.argv[2]) if len(sys.argv)>2 else 160], d['detail'].split('\n')[0][:110]))
    else:
        rows.append((d['reason'], json.dumps(p)[:300], d['detail'][:300].replace('\n',' | ')))
rows.sort()
for r in rows: print(' | '.join(r))
