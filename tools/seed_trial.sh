#!/bin/bash
# tools/seed_trial.sh <seed-id> <property> [tier]
# Applies /verif/seeded/<seed-id>/patch.diff to a scratch worktree of /repo's HEAD,
# confirms (1) the demo passes without the patch, (2) with the patch it builds, the repo's
# own suite still passes and the demo fails, then (3) runs the registered check of
# <property> against the patched worktree (own build dir, own evidence dir) and reports
# whether it raised a VIOLATION. Nothing is applied to /repo itself.
set -u
ID="${1:?seed id}"; PROP="${2:?property}"; TIER="${3:-quick}"
S=/verif/seeded/$ID
W=/var/tmp/seedtrial/$ID
export GOFLAGS=-mod=mod GOPROXY=off
rm -rf "$W"; git -C /repo worktree prune
mkdir -p /var/tmp/seedtrial
git -C /repo worktree add -q --detach "$W" HEAD || exit 2
trap 'git -C /repo worktree remove --force "$W" 2>/dev/null; rm -rf /var/tmp/seedtrial/$ID.build /var/tmp/seedtrial/$ID.out' EXIT
res() { echo "SEEDTRIAL $ID $PROP: $*"; }
if [ "${SKIP_CONFIRM:-}" = "" ]; then
  # demo files: seeded/<id>/demo/<path relative to repo>
  (cd "$S/demo" && find . -type f | while read f; do mkdir -p "$W/$(dirname "$f")"; cp "$f" "$W/$f"; done)
  DEMO_CMD=$(python3 -c "import json;print(json.load(open('$S/meta.json'))['demo_cmd'])")
  (cd "$W" && eval "$DEMO_CMD") >/var/tmp/seedtrial/$ID.demo0 2>&1 && d0=pass || d0=fail
  git -C "$W" apply "$S/patch.diff" || { res "patch does not apply"; exit 2; }
  (cd "$W" && go build ./...) >/dev/null 2>&1 || { res "patched tree does not build"; exit 2; }
  (cd "$W" && eval "$DEMO_CMD") >/var/tmp/seedtrial/$ID.demo1 2>&1 && d1=pass || d1=fail
  # suite without the demo files
  (cd "$S/demo" && find . -type f | while read f; do rm -f "$W/$f"; done)
  suite=$(/verif/tools/seed_runtests.sh "$W" | head -1)
  res "demo without patch: $d0; demo with patch: $d1; suite with patch: $suite"
else
  git -C "$W" apply "$S/patch.diff" || { res "patch does not apply"; exit 2; }
fi
git -C "$W" checkout -q -- go.sum 2>/dev/null
out=$(VERIF_REPO="$W" VERIF_BUILD=/var/tmp/seedtrial/$ID.build VERIF_OUT=/var/tmp/seedtrial/$ID.out /verif/run.sh "$PROP" "$TIER" 2>&1); rc=$?
echo "$out" | grep -E "^(VIOLATION|KNOWN-FINDING|INCONCLUSIVE|$PROP )|^\s+\[" | head -12
if [ $rc = 1 ]; then res "CAUGHT (exit 1) tier=$TIER"; elif [ $rc = 0 ]; then res "MISSED (exit 0) tier=$TIER"; else res "BROKEN (exit $rc) tier=$TIER"; echo "$out" | tail -5; fi
