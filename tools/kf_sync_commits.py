#!/usr/bin/env python3
"""Refresh the commit hashes of fixed entries from their commit_grep pattern (hashes change when fix commits are squashed)."""
import json,subprocess,sys
P='/verif/KNOWN_FINDINGS.json'
d=json.load(open(P))
bad=0
for f in d['findings']:
    if f['status']!='fixed': continue
    g=f.get('commit_grep')
    out=subprocess.run(['git','-C','/repo','log','--format=%h %s','--grep',g,'b2cfdec..HEAD'],capture_output=True,text=True).stdout.strip().split('\n')
    out=[o for o in out if o]
    if len(out)!=1:
        print('AMBIGUOUS/MISSING',f['id'],g,out); bad+=1; continue
    f['commit']=out[0].split()[0]; f['commit_subject']=out[0].split(' ',1)[1]
    f['record']='fixed: property=%s %s %s'%(f['property'],f['commit'],f['what'])
json.dump(d,open(P,'w'),indent=1,ensure_ascii=False)
print('synced, problems:',bad)
