#!/usr/bin/env python3
"""Prints a markdown table from sweep logs (latest entry per property wins)."""
import sys,re
rows={}
for path in sys.argv[1:]:
    for l in open(path):
        m=re.match(r'(C\d\d) rc=(\d+) t=(\d+)s (\d+) known \| (.*)',l)
        if not m: continue
        pid,rc,t,kn,rest=m.groups()
        mm=re.search(r'cases=(\d+) evaluations=(\d+) distinct_nontrivial=(\d+) held=(\d+) known=(\d+) ood=(\d+) inconclusive=(\d+) violated=(\d+)',rest)
        rows[pid]=(rc,t,kn,mm.groups() if mm else None,rest.strip()[:60])
print('| property | exit | wall s | cases | evaluations | distinct non-trivial | ood | inconclusive | known-finding lines |')
print('|---|---|---|---|---|---|---|---|---|')
for pid in sorted(rows):
    rc,t,kn,g,rest=rows[pid]
    if g: print('| %s | %s | %s | %s | %s | %s | %s | %s | %s |'%(pid,rc,t,g[0],g[1],g[2],g[5],g[6],kn))
    else: print('| %s | %s | %s | (%s) | | | | | %s |'%(pid,rc,t,rest,kn))
