NOT_BUILT = {}
chk("C01", "exploration", "runtime monitor: parse/print/re-parse round-trip oracle over generated and corpus inputs x printer-option lattice",
    "Held on every generated (input, options) execution of the real parser and printer; reach comes from three input sources crossed with the option lattice and sub-node printing, not from enumeration. Regions of listed known findings are monitored only by pinned witnesses.",
    "Trusted base: the reflection-driven tree normaliser (oracle/canon.go), which drops positions/comments and applies only the cosmetic rewrites the property lists. Says nothing about inputs the generators do not produce.", "DESIGN.md 5/C01")
chk("C02", "exploration", "runtime monitor: format twice and compare bytes, over generated and corpus inputs x option lattice (no KeepPadding)",
    "Held on every generated (input, options) execution: Print(Parse(Print(Parse(src)))) is byte-identical to the first output, with the KeepComments parser shfmt uses and Simplify applied in both rounds when on.",
    "A first output that does not re-parse is C01's concern (counted out of domain here). Regions of listed known C01/C02/C05 findings are carved out and watched by pinned witnesses only.", "DESIGN.md 5/C02")
chk("C05", "exploration", "runtime monitor: comment injector + comment-sequence oracle over re-parsed output",
    "Held on every generated execution: the comment texts of the re-parsed output equal the input's in order (or exactly the first-line shebang under Minify). Comments are injected at the positions the property names (line ends after statements/items/elements and heredoc operators, own lines anywhere).",
    "Comments are collected by reflection over the tree, not by syntax.Walk. Positions outside the named ones (after a binary operator, inside [[ ]]) are not generated; listed known findings are carved out.", "DESIGN.md 5/C05")
