#!/bin/bash
# tools/seed_import.sh <ID> <demo_cmd> : harvest a sub-agent's seeded change from /tmp/seed/<ID> into /verif/seeded/<ID>
set -u
ID="$1"; DEMO="$2"; SRC=/tmp/seed/$ID; DST=/verif/seeded/${3:-$ID}
mkdir -p "$DST/demo"
git -C "$SRC" diff -- . ':!go.sum' > "$DST/patch.diff"
git -C "$SRC" ls-files --others --exclude-standard | grep -v "SEED_NOTES.md" | while read f; do mkdir -p "$DST/demo/$(dirname "$f")"; cp "$SRC/$f" "$DST/demo/$f"; done
cp "$SRC/SEED_NOTES.md" "$DST/NOTES.md" 2>/dev/null
python3 - "$DST" "$ID" "$DEMO" <<'PY'
import json,sys
dst,i,demo=sys.argv[1:4]
json.dump({"id":dst.split('/')[-1],"property":i,"demo_cmd":demo,"needs":"","confirmed":"","caught_by":""},open(dst+'/meta.json','w'),indent=1)
PY
wc -l "$DST/patch.diff"; find "$DST" -type f
