#!/bin/bash
# usage: runtests.sh <worktree>   -- runs the repository's own test suite in a worktree of mvdan/sh
# and reports whether anything fails beyond the 5 sub-tests that already fail on the
# unmodified tree in this sandbox (permission tests, because we run as root).
# Timing-sensitive tests can flake when the machine is loaded: failing tests are re-run
# alone (up to 3 times) and only count if they keep failing.
export GOFLAGS=-mod=mod GOPROXY=off
unset GOSUMDB GOTOOLCHAIN
W="${1:?worktree}"
out=$(mktemp)
( cd "$W" && go build ./... || echo "build failed"; go test -count=1 -timeout 20m ./... ; cd moreinterp && go test -count=1 ./... ) >"$out" 2>&1
filter() { grep -aE -- "--- FAIL|^FAIL|panic:|build failed|cannot|undefined" | grep -avE "TestRunnerRun/#13(17|18|19|20|21) |--- FAIL: TestRunnerRun \(|^FAIL$|^FAIL\s+mvdan.cc/sh/v3/interp\s"; }
filter <"$out" >"$out.new"
if [ -s "$out.new" ]; then
  # retry the top-level failing tests alone
  tests=$(grep -E "^--- FAIL: " "$out.new" | sed -E 's/^--- FAIL: ([A-Za-z0-9_]+).*/\1/' | sort -u | paste -sd'|')
  if [ -n "$tests" ] && ! grep -qE "build failed|undefined|cannot" "$out.new"; then
    ok=0
    for try in 1 2 3; do
      ( cd "$W" && go test -count=1 -timeout 20m -run "^($tests)\$" ./... ) >"$out" 2>&1
      filter <"$out" >"$out.new"
      if [ ! -s "$out.new" ]; then ok=1; break; fi
    done
    if [ $ok = 1 ]; then echo "SUITE OK (some timing-sensitive tests needed a retry under load: $tests)"; rm -f "$out" "$out.new"; exit 0; fi
  fi
  echo "NEW FAILURES (beyond the 5 baseline ones):"; head -40 "$out.new"; rm -f "$out" "$out.new"; exit 1
fi
echo "SUITE OK (only the 5 baseline permission sub-tests of TestRunnerRun fail, as on the unmodified tree)"
rm -f "$out" "$out.new"
