#!/opt/veriftools/pyvenv/bin/python3
import json, jsonschema, glob, sys
m=json.load(open('/verif/MANIFEST.json')); s=json.load(open('/root/.vp/MANIFEST.schema.json'))
jsonschema.validate(m,s); print("manifest valid:", len(m['checks']), "checks")
es=json.load(open('/root/.vp/EVIDENCE.schema.json'))
for c in m['checks']:
    try:
        e=json.load(open('/verif/'+c['evidence_file']))
        jsonschema.validate(e,es)
        assert e['level']==c['level_claimed']['category'], (e['level'], c['level_claimed']['category'])
        print(" ", c['property_id'], "evidence valid", e['tier'], "evals", e['coverage']['evaluations'], "distinct", e['coverage']['distinct_nontrivial'], "viol", e.get('violations'))
    except Exception as ex:
        print(" ", c['property_id'], "EVIDENCE PROBLEM:", str(ex)[:200])
