#!/usr/bin/env python3
"""Maintain /verif/KNOWN_FINDINGS.json by hand-driven commands (never run by checks).
  kf.py add <id> <status> <property> <what> [--carve txt] [--predicate name] [--commit sha]
  kf.py wit-syn <id> <lang> <opts-json> <src-python-literal>      (SynCase witness)
  kf.py wit-json <id> <payload-json>
  kf.py wit-replay <id> <replay-file>
  kf.py set <id> key value
"""
import sys, json, base64, ast, os
P='/verif/KNOWN_FINDINGS.json'
doc=json.load(open(P)) if os.path.exists(P) else {"findings":[]}
def find(i):
    for f in doc['findings']:
        if f['id']==i: return f
    sys.exit('no finding '+i)
cmd=sys.argv[1]
if cmd=='add':
    i,st,prop,what=sys.argv[2:6]
    f={"id":i,"status":st,"property":prop,"what":what,"witnesses":[]}
    a=sys.argv[6:]
    while a:
        k=a.pop(0).lstrip('-'); f[k]=a.pop(0)
    doc['findings']=[x for x in doc['findings'] if x['id']!=i]+[f]
elif cmd=='wit-syn':
    i,lang,opts,src=sys.argv[2:6]
    s=ast.literal_eval(src) if src[:1] in '"\'' else src
    b=s.encode('utf-8','surrogateescape') if isinstance(s,str) else s
    find(i)['witnesses'].append({"src":base64.b64encode(b).decode(),"src_quoted":json.dumps(s),"lang":lang,"source":"witness","opts":[json.loads(opts)]})
elif cmd=='wit-json':
    find(sys.argv[2])['witnesses'].append(json.loads(sys.argv[3]))
elif cmd=='wit-replay':
    find(sys.argv[2])['witnesses'].append(json.load(open(sys.argv[3]))['payload'])
elif cmd=='set':
    find(sys.argv[2])[sys.argv[3]]=sys.argv[4]
json.dump(doc,open(P,'w'),indent=1,ensure_ascii=False); open(P,'a').write('\n')
