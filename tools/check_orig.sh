#!/bin/bash
# tools/check_orig.sh <ID>...: run the quick checks against the original (unfixed) tree and list which fixed-entry witnesses regress there
W=/var/tmp/orig.$$
git -C /repo worktree add -q $W b2cfdec || exit 1
for p in "$@"; do
  VERIF_REPO=$W /verif/run.sh $p quick 2>&1 | grep "^$p" 
  python3 - $p <<'PY'
import json,glob,sys,collections
c=collections.Counter()
for f in glob.glob('/verif/replay/%s-*.json'%sys.argv[1]):
    d=json.load(open(f)); c[d['reason'].split(':')[1] if d['reason'].startswith('regression') else d['reason']]+=1
print('  ', dict(c))
fixed=[f['id'] for f in json.load(open('/verif/KNOWN_FINDINGS.json'))['findings'] if f['property']==sys.argv[1] and f['status']=='fixed']
print('   fixed entries not regressing on the original tree:', [x for x in fixed if x not in c])
PY
done
git -C /repo worktree remove --force $W
for p in "$@"; do /verif/run.sh $p quick >/dev/null 2>&1; done
