#!/usr/bin/env python3
"""Regenerates /verif/MANIFEST.json from the table below (hand-maintained)."""
import json, subprocess, os

BASE = "for m in $(cat /w/out/gomods.txt); do MF=$(cd /repo/$m && . /w/out/goenv.sh && gomodflag); (cd /repo/$m && go test $MF -json -vet=off -count=1 -timeout 25m ./...); done"

# id -> (category, technique, level text, level note, design ref)
CHECKS = {}
def chk(i, cat, tech, text, note, ref):
    CHECKS[i] = (cat, tech, text, note, ref)

exec(open('/verif/tools/checks_table.py').read())

props = [json.loads(l) for l in open('/verif/properties.jsonl')]
hook_commits = [l.strip() for l in open('/verif/hooks/COMMITS').read().split() ] if os.path.exists('/verif/hooks/COMMITS') else []
m = {
 "version": 1,
 "setup_cmd": "./run.sh --setup",
 "hooks": {
  "guard": "verif",
  "enable": "go build -tags verif (run.sh builds harness/cmd/vcheck and cmd/shfmt against /repo's working tree with -tags verif, plus -race for C32)",
  "baseline_off_cmd": BASE,
  "source_commits": hook_commits,
  "add_only": True,
 },
 "engines": [{"name": "vcheck", "path": "harness/cmd/vcheck", "serves_properties": sorted(CHECKS), "kind_free_text": "Go supervisor + sharded worker processes running the real mvdan/sh API under generated workloads with oracle monitors (runtime monitoring)"}],
 "checks": [],
 "notes": "All checks are runtime monitors over executions of the real code (see DESIGN.md). KNOWN_FINDINGS.json lists genuine defects left unrepaired (status known, with pinned witnesses and carve-outs/predicates) and repaired ones (status fixed, commit recorded, witness replayed as a regression on every run).",
 "not_applicable": [],
}
for p in props:
    i = p['id']
    if i in CHECKS:
        cat, tech, text, note, ref = CHECKS[i]
        m["checks"].append({
            "property_id": i,
            "quick_cmd": "./run.sh %s quick" % i,
            "thorough_cmd": "./run.sh %s thorough" % i,
            "evidence_file": "evidence/%s.json" % i,
            "replay_cmd_template": "./run.sh %s --replay {path}" % i,
            "engine": "vcheck",
            "level_claimed": {"category": cat, "text": text, "design_ref": ref},
            "level_note": note,
            "technique": tech,
        })
    else:
        m["not_applicable"].append({"property_id": i, "reason": NOT_BUILT.get(i, "monitor not built yet in this session; the design for it is in DESIGN.md section 5")})
json.dump(m, open('/verif/MANIFEST.json', 'w'), indent=1)
print("checks:", len(m["checks"]), "not_applicable:", len(m["not_applicable"]))
